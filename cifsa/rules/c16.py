"""C16 — no leaks, no out-of-bounds access, no lasting global side effects."""
import re

from ..facts import Broken, strip, const, walk, walk_eval, show, macro_name
from ..interp import path, Interp, NONZERO, av_const
from .. import cfgq, own, memrules

# Functions / acquisitions the ownership model cannot represent, each with its reason (one named symbol per entry).
OWN_EXEMPT = {
    ("cif_list_deserialize", None): "DESERIALIZE macro: allocation is conditional on an lvalue macro argument being NULL and "
                                    "released by pointer comparison with it; elements live in an array (outside the alias model)",
    ("cif_table_deserialize", None): "as cif_list_deserialize (DESERIALIZE / DESERIALIZE_USTRING into lvalue macro arguments)",
    ("cif_value_deserialize", None): "as cif_list_deserialize; `dest` is never NULL by contract, so the allocating arm is dead",
    ("parse_table", "table"): "the allocating arm needs *tablep == NULL; the only caller (parse_value) always passes an existing "
                              "value object, so that arm is unreachable",
}
FORBIDDEN_GLOBAL_STATE = ("fesetround", "fesetenv", "feholdexcept", "feupdateenv", "fesetexceptflag", "srand", "putenv", "setenv",
                          "unsetenv", "chdir", "signal", "umask", "setlocale")
SETLOCALE_ALLOWED_IN = ("cif_value_init_numb", "cif_value_autoinit_numb")


def array_len(t):
    m = re.search(r"\[(\d+)\]$", t or "")
    return int(m.group(1)) if m else None


def sizeof_bound_rule(prog, rule, only=None):
    """R2a/R2c: an index into a fixed-length array A[N] that is guarded by a comparison of the index against a constant
    (typically sizeof(A)) larger than N; and constant indexes >= N.  Returns the number of guarded index sites judged."""
    judged = 0
    for fn in prog.all_functions():
        if only and fn.key not in only:
            continue
        arrays = {}
        for l in fn.locals:
            n = array_len(l["t"])
            if n:
                arrays[l["name"]] = n
        for (b, i, r, x) in fn.eval_sites("index"):
            base = strip(x.get("base"))
            if not isinstance(base, dict) or base.get("k") != "ref":
                continue
            name = base["name"]
            n = arrays.get(name)
            if n is None and base.get("dk") == "global":
                g = prog.globals.get(name)
                n = g.get("array_len") if g else None
            if n is None:
                n = array_len(base.get("t"))
            if not n:
                continue
            ci = const(x.get("idx"))
            if ci is not None:
                if ci >= n or ci < 0:
                    rule.violation(fn.file, fn.name, x.get("l"), "const-index-out-of-range:%s[%d]" % (name, ci),
                                   "%s has %d elements, index %d" % (name, n, ci))
                continue
            ip = path(strip(x.get("idx")))
            if not ip:
                continue
            guards = []
            for gb in fn.blocks.values():
                c = cfgq.cond_of(fn, gb)
                if c is None or len(gb.succs) != 2:
                    continue
                t = cfgq.cmp_test(c, lambda e: path(strip(e)) == ip)
                if t is None:
                    continue
                op, k = t
                if op in ("<", "<="):
                    edge, bound = (gb.id, 0), (k if op == "<" else k + 1)
                elif op in (">=", ">"):
                    edge, bound = (gb.id, 1), (k if op == ">=" else k + 1)
                else:
                    continue
                if cfgq.must_pass_edge(fn, b.id, [edge]):
                    sz = [y for y in walk(c) if y.get("k") == "sizeof"]
                    guards.append((bound, bool(sz), gb.term.get("l")))
            if not guards:
                continue
            judged += 1
            best = min(g[0] for g in guards)
            key = "index-bound:%s[%s]" % (name, ip)
            if best > n:
                uses_sizeof = any(g[1] for g in guards)
                rule.violation(fn.file, fn.name, x.get("l"), key,
                               "%s[%s] is read under the bound %s < %d but %s has %d elements%s"
                               % (name, ip, ip, best, name, n, " (byte size used as element count)" if uses_sizeof else ""))
            else:
                rule.ok("%s:%s" % (fn.key, key), "bound %d <= %d elements" % (best, n))
    return judged


class LocaleInterp(Interp):
    """ts = True while LC_NUMERIC has been switched to "C" by this function and not yet restored."""

    def __init__(self, prog, fn, enter_helpers=(), restore_helpers=()):
        super().__init__(prog, fn)
        self.enter_helpers = set(enter_helpers) - {fn.name}
        self.restore_helpers = set(restore_helpers) - {fn.name}

    def initial_ts(self):
        return False

    def call(self, st, n, argvals):
        if n.get("callee") in self.enter_helpers:
            return [(st.with_ts(True), NONZERO), (st, av_const(0))]
        if n.get("callee") in self.restore_helpers:
            return [(st.with_ts(False), None)]
        if n.get("callee") == "setlocale" and len(n.get("args", [])) > 1:
            a1 = strip(n["args"][1])
            if const(a1) == 0:
                return [(st, None)]                         # query
            if a1.get("k") == "str":
                return [(st.with_ts(True), NONZERO), (st, av_const(0))]     # change: may fail
            return [(st.with_ts(False), None)]              # restore from a saved name
        return [(st, None)]


def locale_helpers(prog):
    """(functions in which setlocale may appear, enter-helpers, restore-helpers).
    A static function is a locale helper when all of its (transitive) callers are the two formatters or other helpers.  An
    enter-helper contains the switch to "C" and returns a pointer; a restore-helper passes a saved name back to setlocale on
    every path and never switches."""
    allowed = set(SETLOCALE_ALLOWED_IN)
    callers = prog.callers()
    cand = {fn.name for fn in prog.all_functions() if fn.calls_to("setlocale") and fn.name not in allowed and fn.static}
    changed = True
    ok = set()
    while changed:
        changed = False
        for f in sorted(cand - ok):
            cs = {c[0].name for c in callers.get(f, [])}
            if cs and cs <= (allowed | ok):
                ok.add(f)
                changed = True
    enter, restore = set(), set()
    for f in ok:
        fn = prog.fn(f)
        calls = fn.calls_to("setlocale")
        changing = [n for (b, i, r, n) in calls if strip(n["args"][1]).get("k") == "str"]
        restoring = [(b.id, i) for (b, i, r, n) in calls if strip(n["args"][1]).get("k") != "str" and const(n["args"][1]) != 0]
        if changing and "*" in fn.ret:
            enter.add(f)
        elif restoring and not changing and cfgq.must_follow(fn, (fn.entry, -1), restoring):
            restore.add(f)
    return allowed | ok, enter, restore


def ownership(prog):
    a = getattr(prog, "_own", None)
    if a is None:
        a = prog._own = own.analyse(prog)
    return a


def ownership_reports(prog):
    """-> list of dicts: one per (function, kind, acquisition site, exit) with `oom_only` flag."""
    res = ownership(prog)
    out = []
    for key, it in sorted(res.items()):
        fn = it.fn
        groups = {}
        for (kind, acq, node, st, detail) in it.reports:
            acq = acq or {}
            what = acq.get("out") or acq.get("callee") or "?"
            var = None
            m = re.search(r"names: ([^)]*)\)", detail)
            names = m.group(1) if m else ""
            k = (kind, acq.get("callee"), acq.get("out"), acq.get("l"))
            g = groups.setdefault(k, {"kind": kind, "acq": acq, "exits": {}, "oom": [], "detail": detail, "names": names, "st": st, "node": node})
            g["oom"].append(bool(st.ts[2]))
            g["exits"][node.get("txt", "return") if node else "end"] = node.get("l") if node else fn.endline
        for k, g in groups.items():
            out.append({"fn": fn, "kind": g["kind"], "callee": g["acq"].get("callee"), "var": g["acq"].get("out"),
                        "acq_line": g["acq"].get("l"), "exits": g["exits"], "oom_only": all(g["oom"]), "detail": g["detail"],
                        "names": g["names"], "state": g["st"], "overflow": it.overflow})
    return out, res


def report_key(rp):
    v = rp["var"] or rp["names"].split(",")[0].strip() or "?"
    return "%s:%s:%s" % (rp["kind"], rp["callee"], v)


def exempt(rp):
    fn = rp["fn"].name
    if (fn, None) in OWN_EXEMPT:
        return OWN_EXEMPT[(fn, None)]
    v = rp["var"] or rp["names"].split(",")[0].strip()
    return OWN_EXEMPT.get((fn, v))


def run(prog, chk):
    chk.level = "other"
    chk.explanation = ("Four rule groups over all ten units.  R1: ownership typestate (per-function dataflow with aliases, "
                       "out-parameter allocator summaries, release/transfer tables): every heap object a function acquires is "
                       "released or handed over exactly once on every path (paths that pass a failed allocation are judged under "
                       "C17).  R2: bounds idioms (index guarded by a bound larger than the array; free() of a pointer-arithmetic "
                       "expression).  R3: process-wide state (setlocale save/restore discipline; no rounding-mode or environment "
                       "changes).  R4/R5: unbounded signed decimal accumulation; a value's kind set before the fields its clean "
                       "function reads.  Absence of undefined behaviour in general needs value ranges on all arithmetic and is "
                       "not decided.")
    reports, res = ownership_reports(prog)
    r1 = chk.rule("R1-ownership", "every allocation a function acquires (malloc family, strdup, allocating out-parameters of the "
                  "frozen summary table) is released or transferred exactly once on every path not involving a failed allocation",
                  floor=40)
    bad_fns = set()
    for rp in reports:
        if rp["oom_only"]:
            continue
        fn = rp["fn"]
        why = exempt(rp)
        key = "%s:%s" % (fn.name, report_key(rp))
        if why:
            r1.info(key, "exempt: " + why)
            continue
        bad_fns.add(fn.key)
        exits = ", ".join("`%s` L%s" % (t[:40], l) for t, l in sorted(rp["exits"].items(), key=lambda kv: kv[1] or 0)[:4])
        if rp["kind"] == "leak":
            msg = "%s acquired at L%s (%s) is neither released nor handed over on a path to %s" % (
                rp["var"] or rp["names"] or "the allocation", rp["acq_line"], rp["callee"], exits)
        else:
            msg = "%s (acquired at L%s by %s): %s" % (rp["kind"], rp["acq_line"], rp["callee"], rp["detail"])
        r1.violation(fn.file, fn.name, rp["acq_line"], report_key(rp), msg, path=["L%s" % x for x in rp["state"].trail_lines()][-25:])
    n_fn = 0
    for key, it in sorted(res.items()):
        n_fn += 1
        if it.overflow:
            r1.unproved(key, "not analysed to a fixpoint")
        elif key not in bad_fns:
            n_acq = len(it.acq_nodes)
            r1.ok(key, "%d acquisition site(s), %d exits: released/transferred on all non-OOM paths" % (n_acq, len(it.exits)), n=max(1, n_acq))
    chk.extra_cov["ownership_functions"] = n_fn
    chk.extra_cov["allocator_summary_table"] = len(own.ALLOC_OUT)

    r2 = chk.rule("R2-bounds-idioms", "no index is guarded by a bound larger than its array; free() never receives a "
                  "pointer-arithmetic expression; constant indexes are in range", floor=2)
    sizeof_bound_rule(prog, r2)
    n_free = 0
    for fn in prog.all_functions():
        for (b, i, r, n) in fn.calls_to("free"):
            n_free += 1
            a = strip(n["args"][0])
            if isinstance(a, dict) and ((a.get("k") == "un" and a.get("op") in ("pre++", "pre--", "post++", "post--"))
                                        or (a.get("k") == "bin" and a.get("op") in ("+", "-"))):
                r2.violation(fn.file, fn.name, n.get("l"), "free-of-pointer-arithmetic:%s" % show(a)[:30],
                             "free(%s) releases the address computed by pointer arithmetic, not the element it points to" % show(a)[:40])
    r2.ok("free-arguments", "%d calls to free(), none on a ++/--/+ expression" % n_free) if n_free else None

    r3 = chk.rule("R3-process-wide-state", "setlocale only in the two number formatters, with the queried old locale restored on every "
                  "exit; no call changes the floating-point environment, the environment variables, the directory or signals",
                  floor=2)
    locale_fns, enter_helpers, restore_helpers = locale_helpers(prog)
    for fn in prog.all_functions():
        for (b, i, r, n) in fn.calls():
            c = n.get("callee")
            if c in FORBIDDEN_GLOBAL_STATE and c != "setlocale":
                r3.violation(fn.file, fn.name, n.get("l"), "global-state-call:%s" % c, "%s() changes process-wide state" % c)
            if c == "setlocale" and fn.name not in locale_fns:
                r3.violation(fn.file, fn.name, n.get("l"), "setlocale-outside-formatters:%s" % fn.name, "setlocale() called in %s" % fn.name)
    r3.ok("no-fenv-env-signal-calls", "none of %s is called anywhere" % ", ".join(x for x in FORBIDDEN_GLOBAL_STATE if x != "setlocale"))
    # one category throughout: the name returned by a query for one category is only valid to restore that same category
    # (for LC_ALL glibc returns a composite string that setlocale(LC_NUMERIC, ..) rejects)
    cats = {}
    for fn in prog.all_functions():
        for (b, i, r, n) in fn.calls_to("setlocale"):
            c = const(n["args"][0]) if n.get("args") else None
            cats.setdefault(c, []).append((fn, n))
    if len(cats) > 1:
        major = max(cats, key=lambda c: len(cats[c]))
        for c, sites in cats.items():
            if c == major:
                continue
            for (fn, n) in sites:
                r3.violation(fn.file, fn.name, n.get("l"), "setlocale-category-mismatch:%s" % fn.name,
                             "setlocale at L%s uses category %s while the other %d calls of the save / switch / restore protocol use %s: "
                             "a locale name obtained for one category is not in general accepted for another, so the restore "
                             "fails silently and the numeric locale stays \"C\"" % (n.get("l"), macro_name(n["args"][0]) or c,
                                                                                  len(cats[major]), macro_name(cats[major][0][1]["args"][0]) or major))
    elif cats:
        r3.ok("setlocale-one-category", "all %d calls use %s" % (sum(len(v) for v in cats.values()),
                                                                  macro_name(next(iter(cats.values()))[0][1]["args"][0]) or next(iter(cats))))
    for fname in sorted(set(SETLOCALE_ALLOWED_IN) | locale_fns):
        fn = prog.fn(fname)
        calls = fn.calls_to("setlocale")
        if not calls and not (prog.callees(fn) & set(enter_helpers)):
            r3.info(fname, "no setlocale call")
            continue
        if fname in restore_helpers:
            r3.ok(fname + ":restore-helper", "restores the locale it is given on every path; used only by the formatters")
            continue
        if not calls:
            # the formatter works through helpers only
            it = LocaleInterp(prog, fn, enter_helpers, restore_helpers).run()
            bad = [(st, node) for st, av, node in it.exits if st.ts]
            key = "%s:setlocale-save-restore" % fname
            if it.overflow:
                r3.unproved(key, "not analysed to a fixpoint")
            elif bad:
                st, node = bad[0]
                r3.violation(fn.file, fname, node.get("l") if node else fn.endline, key + ":exit",
                             "an exit is reachable after the locale was changed to \"C\" (through %s) without restoring it"
                             % "/".join(sorted(enter_helpers)), path=["L%s" % x for x in st.trail_lines()][-20:])
            else:
                r3.ok(key, "locale changed and restored through helpers on every exit (%d exits)" % len(it.exits))
            continue
        changing = [(b, i, n) for (b, i, r, n) in calls if const(n["args"][1]) != 0 and strip(n["args"][1]).get("k") == "str"]
        queries = [(b, i, n) for (b, i, r, n) in calls if const(n["args"][1]) == 0]
        restores = [(b, i, n) for (b, i, r, n) in calls if strip(n["args"][1]).get("k") != "str" and const(n["args"][1]) != 0]
        for (b, i, n) in changing:
            # the value used to restore must not be the return value of the changing call itself
            saved_from_change = None
            for (b2, i2, r2_, a) in fn.eval_sites():
                if a.get("k") == "asg" and any(x.get("id") == n["id"] for x in walk(a.get("rhs"))):
                    saved_from_change = path(strip(a.get("lhs")))
                if a.get("k") == "decl":
                    for v in a.get("vars", []):
                        if v.get("init") is not None and any(x.get("id") == n["id"] for x in walk(v["init"])):
                            saved_from_change = v["name"]
            restore_args = {path(strip(rn["args"][1])) for (_, _, rn) in restores}
            key = "%s:setlocale-save-restore" % fname
            if saved_from_change and saved_from_change in restore_args:
                r3.violation(fn.file, fname, n.get("l"), key,
                             "the locale passed back to setlocale() on exit (`%s`) is the return value of the call that installed "
                             "\"C\" - that is the NEW locale, so LC_NUMERIC is never restored" % saved_from_change)
                continue
            if not queries:
                r3.violation(fn.file, fname, n.get("l"), key, "the current locale is not queried (setlocale(LC_NUMERIC, NULL)) before it is changed")
                continue
            if not cfgq.must_precede(fn, (b.id, i), [(qb.id, qi) for (qb, qi, qn) in queries]):
                r3.violation(fn.file, fname, n.get("l"), key, "the locale is changed on a path that did not query the old one")
                continue
            # every exit after the change passes a restoring call
            # path-sensitive: after a successful change every exit must have passed a restoring call
            it = LocaleInterp(prog, fn, enter_helpers, restore_helpers).run()
            if fname in enter_helpers:
                # contract of an `enter` helper: locale changed <=> it returns a non-NULL saved name
                bad = [(st, node) for st, av, node in it.exits
                       if (st.ts and not (av is not None and av.nonzero())) or (not st.ts and not (av is not None and av.is_const() and av.value() == 0))]
            else:
                bad = [(st, node) for st, av, node in it.exits if st.ts]
            if it.overflow:
                r3.unproved(key, "not analysed to a fixpoint")
            elif bad:
                st, node = bad[0]
                r3.violation(fn.file, fname, node.get("l") if node else fn.endline, key + ":exit",
                             "an exit is reachable after the locale was changed to \"C\" without restoring it",
                             path=["L%s" % x for x in st.trail_lines()][-20:])
            else:
                r3.ok(key, "old locale queried, copied and restored on every exit (%d exits)" % len(it.exits))

    r4 = chk.rule("R4-signed-accumulation", "no `x = x*10 + d` on a signed int inside an input-driven loop without a bound check",
                  primary=False, floor=1)
    n_acc = 0
    for fn in prog.all_functions():
        for (b, i, r, n) in fn.eval_sites("asg"):
            if n.get("op") != "=":
                continue
            lp = path(strip(n.get("lhs")))
            if not lp:
                continue
            muls = [x for x in walk(n.get("rhs")) if x.get("k") == "bin" and x.get("op") == "*" and const(x.get("rhs")) == 10
                    and path(strip(x.get("lhs"))) == lp]
            if not muls:
                continue
            lt = strip(n.get("lhs")).get("t", "")
            n_acc += 1
            key = "%s:%s = %s*10 + d" % (fn.name, lp, lp)
            if lt.strip() not in ("int", "long", "short", "int32_t", "ssize_t"):
                r4.ok(key, "type %s: unsigned or wide accumulation" % lt)
                continue
            # a bound check on lp dominating the store inside the loop?
            bounded = False
            for gb in fn.blocks.values():
                c = cfgq.cond_of(fn, gb)
                if c is not None and cfgq.cmp_test(c, lambda e: path(strip(e)) == lp) is not None and b.id in cfgq.reach(fn, [gb.id]) and gb.id in cfgq.reach(fn, [b.id]):
                    bounded = True
            if bounded:
                r4.ok(key, "bounded inside the loop")
            else:
                r4.violation(fn.file, fn.name, n.get("l"), "unbounded-signed-accumulation:%s:%s" % (fn.name, lp),
                             "`%s = %s*10 + digit` on a signed %s for as many digits as the input has: signed overflow "
                             "(undefined behaviour) for long digit strings" % (lp, lp, lt))
    if n_acc == 0:
        raise Broken("no decimal accumulation found (expected at least the exponent parser)")

    r5 = chk.rule("R5-kind-after-fields", "a value's kind is stored only after the fields its clean function reads for that kind "
                  "have been stored (otherwise a failure ladder frees uninitialised pointers)", primary=False, floor=3)
    KIND_FIELDS = {"CIF_NUMB_KIND": ("text", "digits", "su_digits"), "CIF_CHAR_KIND": ("text",)}
    n_kind = 0
    for fn in prog.all_functions():
        for (b, i, r, n) in fn.eval_sites("asg"):
            lp = path(strip(n.get("lhs"))) or ""
            if not lp.endswith("kind") or n.get("op") != "=":
                continue
            rr = strip(n.get("rhs"))
            kn = (rr.get("name") if isinstance(rr, dict) and rr.get("k") == "ref" and rr.get("dk") == "enum" else macro_name(n.get("rhs"))) or ""
            from_db = any(x.get("k") == "call" and x.get("callee") == "sqlite3_column_int" for x in walk(n.get("rhs")))
            if kn not in KIND_FIELDS and not from_db:
                continue
            base = lp[:-len("kind")].rstrip(".>-")
            if kn in KIND_FIELDS:
                n_kind += 1
                missing = []
                for fld in KIND_FIELDS[kn]:
                    stores = [(bb.id, ii) for (bb, ii, rr, a) in fn.eval_sites("asg")
                              if re.search(r"(^|[>\.])%s$" % fld, path(strip(a.get("lhs"))) or "") and (path(strip(a.get("lhs"))) or "").startswith(base[:4])]
                    # the target object may be fresh from a function that already initialised it; only judge when the same
                    # function stores the field at all
                    if stores and not (cfgq.must_precede(fn, (b.id, i), stores) or any(sb == b.id for sb, si in stores)):
                        missing.append(fld)
                key = "%s:%s=%s" % (fn.name, lp, kn)
                if missing:
                    r5.unproved(key, "kind stored before %s on some path (same block ordering not judged)" % missing)
                else:
                    r5.ok(key, "fields stored first or in the same block")
            else:
                n_kind += 1
                # kind read from the database before the kind's fields are filled (GET_VALUE_PROPS)
                mac = "GET_VALUE_PROPS" in (n.get("ms") or [])
                # does a failure label reachable from here run a deep release (clean / free of a value or packet)?
                fail_blocks = [x.id for x in fn.blocks.values() if x.label and x.label.get("k") == "label" and x.label.get("name", "").endswith("_fail")
                               and x.id in cfgq.reach(fn, [b.id])]
                deep = False
                for fb in fail_blocks:
                    rr_ = cfgq.reach(fn, [fb])
                    for (bb, ii, r3_, c3) in fn.calls():
                        if bb.id in rr_ and c3.get("callee") in ("cif_packet_free", "cif_value_free", "cif_value_clean"):
                            deep = True
                # the pointers of the kind are set to NULL before the first step that can fail: then clean/free is safe
                nulled = set()
                fallible = [(bb.id, ii) for (bb, ii, r4, c4) in fn.calls() if "GET_VALUE_PROPS" in (c4.get("ms") or [])
                            and c4.get("callee") in ("malloc", "cif_value_deserialize")]
                for (bb, ii, r4, a4) in fn.eval_sites("asg"):
                    # a store written in the macro itself (innermost expansion), at the top of the kind's `case` block
                    if (a4.get("ms") or [None])[0] == "GET_VALUE_PROPS" and a4.get("op") == "=" and const(a4.get("rhs")) == 0:
                        lp4 = path(strip(a4.get("lhs"))) or ""
                        m4 = re.search(r"as_(char|numb)\.(text|digits|su_digits)$", lp4)
                        if m4 and bb.label and bb.label.get("k") == "case":
                            if all(fb != bb.id or fi > ii for (fb, fi) in fallible):
                                nulled.add((m4.group(1), m4.group(2)))
                want_null = {("char", "text"), ("numb", "text"), ("numb", "digits"), ("numb", "su_digits")}
                if mac and nulled >= want_null:
                    r5.ok("%s:GET_VALUE_PROPS" % fn.name, "kind stored first, but all four pointer fields are set to NULL before the first "
                          "fallible step: a partially filled value can be released normally")
                elif mac and not deep:
                    r5.info("%s:GET_VALUE_PROPS" % fn.name, "kind stored before fields, but the failure ladder only frees the shell (leak judged by R1)")
                elif mac:
                    r5.violation(fn.file, fn.name, n.get("l"), "kind-before-fields:%s:GET_VALUE_PROPS" % fn.name,
                                 "GET_VALUE_PROPS stores the value's kind before filling the kind's fields; if an allocation inside "
                                 "the macro fails the object is left with kind set and uninitialised pointers, which the failure "
                                 "ladder's clean/free then releases")
    if n_kind < 3:
        raise Broken("only %d kind stores found" % n_kind)

    r6 = chk.rule("R6-alias-pair-free", "entry->key and entry->key_orig may be one allocation: free() of either is guarded by their "
                  "inequality, part of a tear-down of both, or releases an allocation made earlier in the same function",
                  floor=4)
    judged, alias_stores = memrules.alias_pair_free(prog, r6)
    if alias_stores < 1:
        raise Broken("no store `e->key_orig = e->key` found: the aliasing the rule guards against has vanished")
    if judged < 4:
        raise Broken("only %d free(->key / ->key_orig) sites found" % judged)

    r7 = chk.rule("R7-allocation-extent", "an element access p[IDX] after p = alloc(COUNT * sizeof(T)) with IDX - COUNT a constant "
                  "stays inside the block (terminator slots are allocated); capacity increments passed to realloc are provably "
                  ">= 1; a pointer is not dereferenced under `<=` against an exclusive end", floor=8)
    n7 = memrules.alloc_extent(prog, r7)
    n7g = memrules.growth_positive(prog, r7)
    n7e = memrules.exclusive_end_guards(prog, r7)
    if n7 < 5 or n7g < 1 or n7e < 2:
        raise Broken("allocation-extent rule instances vanished: %d extent, %d growth, %d exclusive-end" % (n7, n7g, n7e))

    r8 = chk.rule("R8-no-dangling-field-under-kind", "after `v->kind = K` a function does not release one of K's pointer fields of v "
                  "on a path that leaves with the kind still set", primary=False, floor=5)
    if memrules.dangling_under_kind(prog, r8) < 5:
        raise Broken("kind stores vanished")

    r9 = chk.rule("R9-declaration-parameter-names", "no function is declared with two parameters named in the opposite order from its "
                  "definition (all units)", primary=False, floor=200)
    if memrules.declaration_parameter_agreement(prog, r9) < 200:
        raise Broken("fewer than 200 declaration/definition pairs")

    r11 = chk.rule("R11-hash-iteration-intact", "no HASH_ITER body writes the iteration's look-ahead variable (tear-down loops free "
                   "every entry exactly once)", primary=False, floor=8)
    if memrules.hash_iter_lookahead(prog, r11) < 8:
        raise Broken("fewer than 8 HASH_ITER loops found")

    # the parser's storing calls dereference their handle: none is reached with a NULL one (shared with C15 R9)
    from . import c15
    c15.null_target_rule(prog, chk, "R15", primary=False)

    r16 = chk.rule("R16-wide-copy-sizes-in-bytes", "memcpy / memmove / memset of wide objects have a size built with sizeof; u_memcpy / "
                   "u_memmove count UChars (shared with C08 R9)", primary=False, floor=15)
    if memrules.wide_copy_sizes(prog, r16) < 15:
        raise Broken("fewer than 15 memcpy-family calls found")

    r17 = chk.rule("R17-not-freed-after-transfer", "a block stored into a field of an object that stays alive is not freed afterwards by the "
                   "same function (shared with C17 R17)", primary=False, floor=2)
    if memrules.free_after_transfer(prog, r17) < 2:
        raise Broken("fewer than 2 store-then-free sites found")

    r18 = chk.rule("R18-source-read-before-destination-cleaned", "a function that copies one value onto an existing one cleans the "
                   "destination only after it has read the source: otherwise a source that is part of the destination is read "
                   "after its release (shared with C19 R11)", primary=False, floor=1)
    if memrules.destination_cleaned_before_source_read(prog, r18) < 1:
        raise Broken("no function cleaning a destination value found")

    r14 = chk.rule("R14-no-release-of-an-unset-pointer", "a local pointer declared without an initialiser and set only by a callee that "
                   "succeeded is not handed to free() / a *_free function on the path through that callee's failure", primary=False, floor=15)
    from .. import uninitfree
    if uninitfree.rule(prog, r14) < 15:
        raise Broken("fewer than 15 locals set through an out-parameter found")

    r13 = chk.rule("R13-compacted-array-not-read-by-count", "an array filled only for the elements that pass a test, while a count "
                   "advances for every element, is not subscripted by an index run against that count in the callee that "
                   "receives both: the elements past the ones written are uninitialised (shared with C12 R13)",
                   primary=False, floor=1)
    from .. import fillextent
    if fillextent.rule(prog, r13) < 1:
        raise Broken("no call passing a conditionally filled array together with a count found in parser.c")

    r12 = chk.rule("R12-signed-index-lower-bound", "an index variable of signed type into a fixed-size table (character classes, "
                   "keyword tables) is non-negative by construction or tested for it: option bytes and characters above 0x7F do "
                   "not become negative indexes (shared with C03 R6)", primary=False, floor=5)
    if memrules.signed_index_lower_bound(prog, r12) < 5:
        raise Broken("fewer than 5 signed-index accesses to fixed-size arrays found")

    r10 = chk.rule("R10-capacity-is-allocation-count", "a non-constant `capacity` stored by a function that allocates is the element "
                   "count of a block it allocates (lists, serialisation buffers): insertions trust it when deciding whether to grow",
                   primary=False, floor=4)
    if memrules.capacity_matches_allocation(prog, r10) < 4:
        raise Broken("fewer than 4 capacity stores found in value.c")
