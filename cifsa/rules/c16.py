"""C16 — no leaks, no out-of-bounds, no lasting global side effects (rule groups are added incrementally)."""
import re

from ..facts import Broken, strip, const, walk, walk_eval, show
from ..interp import path
from .. import cfgq


def array_len(t):
    m = re.search(r"\[(\d+)\]$", t or "")
    return int(m.group(1)) if m else None


def sizeof_bound_rule(prog, rule, only=None):
    """R2a/R2c: an index into a fixed-length array A[N] that is guarded by a comparison of the index against a constant
    (typically sizeof(A)) larger than N; and constant indexes >= N.  Returns the number of guarded index sites judged."""
    judged = 0
    for fn in prog.all_functions():
        if only and fn.key not in only:
            continue
        arrays = {}
        for l in fn.locals:
            n = array_len(l["t"])
            if n:
                arrays[l["name"]] = n
        for (b, i, r, x) in fn.eval_sites("index"):
            base = strip(x.get("base"))
            if not isinstance(base, dict) or base.get("k") != "ref":
                continue
            name = base["name"]
            n = arrays.get(name)
            if n is None and base.get("dk") == "global":
                g = prog.globals.get(name)
                n = g.get("array_len") if g else None
            if n is None:
                n = array_len(base.get("t"))
            if not n:
                continue
            ci = const(x.get("idx"))
            if ci is not None:
                if ci >= n or ci < 0:
                    rule.violation(fn.file, fn.name, x.get("l"), "const-index-out-of-range:%s[%d]" % (name, ci),
                                   "%s has %d elements, index %d" % (name, n, ci))
                continue
            ip = path(strip(x.get("idx")))
            if not ip:
                continue
            # upper-bound guards on ip that dominate this site
            guards = []
            for gb in fn.blocks.values():
                c = cfgq.cond_of(fn, gb)
                if c is None or len(gb.succs) != 2:
                    continue
                t = cfgq.cmp_test(c, lambda e: path(strip(e)) == ip)
                if t is None:
                    continue
                op, k = t
                if op in ("<", "<="):
                    edge, bound = (gb.id, 0), (k if op == "<" else k + 1)
                elif op in (">=", ">"):
                    edge, bound = (gb.id, 1), (k if op == ">=" else k + 1)
                else:
                    continue
                if cfgq.must_pass_edge(fn, b.id, [edge]):
                    sz = [y for y in walk(c) if y.get("k") == "sizeof"]
                    guards.append((bound, bool(sz), gb.term.get("l")))
            if not guards:
                continue
            judged += 1
            best = min(g[0] for g in guards)
            key = "index-bound:%s[%s]" % (name, ip)
            if best > n:
                uses_sizeof = any(g[1] for g in guards)
                rule.violation(fn.file, fn.name, x.get("l"), key,
                               "%s[%s] is read under the bound %s < %d but %s has %d elements%s"
                               % (name, ip, ip, best, name, n, " (byte size used as element count)" if uses_sizeof else ""))
            else:
                rule.ok("%s:%s" % (fn.key, key), "bound %d <= %d elements" % (best, n))
    return judged


def run(prog, chk):
    chk.level = "other"
    chk.explanation = "under construction"
    r2 = chk.rule("R2-bounds-idioms", "indexes into fixed-length arrays are guarded by bounds no larger than the element count", floor=1)
    sizeof_bound_rule(prog, r2)
