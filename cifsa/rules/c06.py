"""C06 — packet iterators: life-cycle guards, close commits / abort reverts, internal users close what they open."""
from ..facts import Broken, strip, const, walk_eval
from ..interp import path
from .. import cfgq
from .. import tx as txm
from ..sqlmodel import tx_event, classify
from . import c05


def _is_call(n, name):
    n = strip(n)
    return isinstance(n, dict) and n.get("k") == "call" and n.get("callee") == name


def _ends(n, suffix):
    p = path(strip(n))
    return p is not None and (p == suffix or p.endswith("->" + suffix) or p.endswith("." + suffix))


def modifying_steps(prog, fn, sqlm):
    out = []
    for (b, i, r, n, field) in sqlm.step_sites(fn):
        if classify(sqlm.sql_of(field)) == "modify":
            out.append((b.id, i, n, field))
    return out


def internal_users_rule(prog, chk, rid="R4", primary=True):
    a = c05.analysis(prog)
    # ---------------- R4 internal users close what they open
    r4 = chk.rule(rid + "-internal-users-close", "every library function that obtains an iterator from cif_loop_get_packets "
                  "closes or aborts it exactly once on every path", floor=1, primary=primary)
    users = [fn for fn in prog.all_functions() if fn.calls_to("cif_loop_get_packets") and fn.name not in txm.UNBALANCED]
    if not users:
        raise Broken("no internal user of cif_loop_get_packets found")
    c05.check_balance(prog, chk, r4, only={f.name for f in users})
    for fn in users:
        itx = a.results.get(fn.key)
        if itx:
            for kind, line, st in itx.anomalies:
                r4.violation(fn.file, fn.name, line, "anomaly:" + kind, "%s at L%s" % (kind, line))
    chk.extra_cov["iterator_users"] = [f.key for f in users]



def run(prog, chk):
    chk.level = "other"
    chk.explanation = ("Structural life-cycle of packet iterators decided on the CFGs of cif_loop_get_packets, "
                       "cif_pktitr_{next_packet,update_packet,remove_packet,close,abort} and of every library function "
                       "that opens an iterator: transaction contract on every exit, stale/misuse guards dominate every "
                       "modifying statement, bookkeeping stores precede the success exits, savepoints paired.  "
                       "Does not decide that each packet is delivered exactly once (depends on SQL row grouping at run time).")
    a = c05.analysis(prog)
    sqlm = a.sqlm

    # ---------------- R1 contract of the three unbalanced functions + free on every path
    r1 = chk.rule("R1-iterator-tx-contract", "cif_loop_get_packets returns with the transaction open exactly on CIF_OK; "
                  "close commits (rolling back if that fails), abort rolls back; both release the iterator on every path", floor=3)
    for name in txm.UNBALANCED:
        prog.fn(name)
    c05.check_balance(prog, chk, r1, only=set(txm.UNBALANCED))
    for name, want in (("cif_pktitr_close", "commit"), ("cif_pktitr_abort", "rollback")):
        fn = prog.fn(name)
        evs = [(b.id, i, tx_event(n)) for (b, i, r, n) in fn.calls() if tx_event(n)]
        kinds = [k for (_, _, k) in evs]
        if want not in kinds:
            r1.violation(fn.file, fn.name, fn.line, "missing-%s" % want, "%s never issues a %s" % (name, want))
        elif name == "cif_pktitr_abort" and "commit" in kinds:
            r1.violation(fn.file, fn.name, fn.line, "abort-commits", "cif_pktitr_abort issues a commit")
        else:
            first = [(b, i) for (b, i, k) in evs if k == want]
            others = [(b, i) for (b, i, k) in evs if k != want]
            # the wanted event comes first on every path: every other tx event is preceded by it
            bad = [o for o in others if not cfgq.must_precede(fn, o, first)]
            if bad:
                r1.violation(fn.file, fn.name, fn.line, "order-%s" % want, "a transaction event precedes the %s" % want)
            else:
                r1.ok("%s:%s-first" % (name, want), "events %s" % kinds)
        frees = [(b.id, i) for (b, i, r, n) in fn.calls_to("cif_pktitr_free")]
        rets = fn.returns()
        bad = [n for (b, i, r, n) in rets if not cfgq.must_precede(fn, (b.id, i), frees)]
        if bad or not frees:
            r1.violation(fn.file, fn.name, bad[0].get("l") if bad else fn.line, "free-on-every-path",
                         "a path through %s returns without cif_pktitr_free(iterator)" % name)
        else:
            r1.ok("%s:free-on-every-path" % name, "%d returns, all preceded by cif_pktitr_free" % len(rets))
    # get_packets: iterator released on every non-OK exit after allocation; EMPTY_LOOP only on the SQLITE_DONE edge
    gp = prog.fn("cif_loop_get_packets")
    it = a.results[gp.key]
    frees = [(b.id, i) for (b, i, r, n) in gp.calls_to("cif_pktitr_free")]
    allocs = [(b.id, i) for (b, i, r, n) in gp.calls_to("malloc") if True]
    bad = []
    null_edges = cfgq.guard_edges(gp, lambda c: cfgq.zero_test(c, lambda e: path(strip(e)) == "temp_it"))
    null_targets = [(gp.blocks[b].succs[i], -1) for (b, i) in null_edges if gp.blocks[b].succs[i] is not None]
    seen_nodes = set()
    for st, av, node in it.exits:
        if txm.ret_class(av) == "err" and node is not None and node["id"] not in seen_nodes:
            seen_nodes.add(node["id"])
            blk, idx = next((b.id, i) for (b, i, r, n) in gp.returns() if n is node)
            # exits before the allocation need no free; later ones pass the free or the failed-allocation edge
            if allocs and cfgq.must_precede(gp, (blk, idx), allocs) and \
                    not cfgq.must_precede(gp, (blk, idx), frees + null_targets):
                bad.append(node)
    if bad:
        r1.violation(gp.file, gp.name, bad[0].get("l"), "iterator-leak-on-error",
                     "an error exit of cif_loop_get_packets after allocating the iterator skips cif_pktitr_free")
    else:
        r1.ok("cif_loop_get_packets:free-on-error", "every error exit after allocation passes cif_pktitr_free")
    empty = prog.macro_int("CIF_EMPTY_LOOP")
    done = None
    for b in gp.blocks.values():
        if b.label and b.label.get("k") == "case" and b.label.get("v") == 101:
            done = b.id
    sets = [(b.id, i) for (b, i, r, n) in gp.eval_sites("asg") if const(n.get("rhs")) == empty and _ends(n.get("lhs"), "_error_code")]
    # the same decision written as a comparison: `x == SQLITE_DONE` (true edge) / `x != SQLITE_DONE` (false edge)
    done_edges = cfgq.guard_edges(gp, lambda c: (lambda t: ("true" if t == ("==", 101) else ("false" if t == ("!=", 101) else None)))(
        cfgq.cmp_test(c, lambda e: path(strip(e)) is not None or strip(e).get("k") in ("call", "asg"))))
    if sets and done is None and done_edges and all(cfgq.must_pass_edge(gp, s[0], done_edges) for s in sets):
        r1.ok("empty-loop-origin", "CIF_EMPTY_LOOP originates only where the first step returned SQLITE_DONE")
    elif not sets or done is None:
        r1.violation(gp.file, gp.name, gp.line, "empty-loop-origin", "CIF_EMPTY_LOOP is not set under `case SQLITE_DONE`")
    else:
        okk = all(cfgq.must_precede(gp, s, [(done, -1)]) or s[0] == done for s in sets)
        (r1.ok if okk else lambda k, d: r1.violation(gp.file, gp.name, gp.line, k, d))(
            "empty-loop-origin", "CIF_EMPTY_LOOP originates only under case SQLITE_DONE of the first step")

    # ---------------- R2 life-cycle guards dominate effects
    r2 = chk.rule("R2-lifecycle-guards", "stale-iterator (autocommit) and no-current-packet (previous_row_num <= 0) guards "
                  "dominate every modifying statement; bookkeeping stores precede the success exits", floor=6)
    inv = prog.macro_int("CIF_INVALID_HANDLE")
    misuse = prog.macro_int("CIF_MISUSE")
    for name in ("cif_pktitr_update_packet", "cif_pktitr_remove_packet"):
        fn = prog.fn(name)
        mods = modifying_steps(prog, fn, sqlm)
        # also calls to helpers that modify
        for (b, i, r, n) in fn.calls():
            if n.get("callee") in a.summaries and a.summaries[n["callee"]].get("mods_out"):
                mods.append((b.id, i, n, "call " + n["callee"]))
        if not mods:
            raise Broken("%s: no modifying statement found" % name)
        ac_edges = cfgq.guard_edges(fn, lambda c: cfgq.zero_test(c, lambda e: _is_call(e, "sqlite3_get_autocommit")))

        def prn(c):
            t = cfgq.cmp_test(c, lambda e: _ends(e, "previous_row_num"))
            if t is None:
                return None
            op, k = t
            if (op, k) in (("<=", 0), ("<", 1)):
                return "false"
            if (op, k) in ((">", 0), (">=", 1)):
                return "true"
            return None
        pr_edges = cfgq.guard_edges(fn, prn)
        for (bid, idx, n, what) in mods:
            for gname, edges, code in (("autocommit", ac_edges, inv), ("previous_row_num", pr_edges, misuse)):
                key = "%s:%s-guard:%s" % (name, gname, what)
                if edges and cfgq.must_pass_edge(fn, bid, edges):
                    r2.ok(key, "modifying site L%s dominated by the %s guard" % (n.get("l"), gname))
                else:
                    r2.violation(fn.file, fn.name, n.get("l"), key,
                                 "modifying statement (%s) is reachable without passing the %s guard" % (what, gname))
        # the refused branches produce the documented codes
        consts = {const(n.get("rhs")) for (b, i, r, n) in fn.eval_sites("asg") if _ends(n.get("lhs"), "_error_code")}
        consts |= {const(n.get("e")) for (b, i, r, n) in fn.returns() if n.get("e")}
        for code, cname in ((inv, "CIF_INVALID_HANDLE"), (misuse, "CIF_MISUSE")):
            if code in consts:
                r2.ok("%s:yields-%s" % (name, cname))
            else:
                r2.violation(fn.file, fn.name, fn.line, "%s:yields-%s" % (name, cname), "%s never yields %s" % (name, cname))
    # next_packet: stale guard before any step; finished tested first; previous_row_num = current_row before OK exits
    nx = prog.fn("cif_pktitr_next_packet")
    steps = [(b.id, i, n) for (b, i, r, n) in nx.calls_to("sqlite3_step")]
    ac_edges = cfgq.guard_edges(nx, lambda c: cfgq.zero_test(c, lambda e: _is_call(e, "sqlite3_get_autocommit")))
    for (bid, idx, n) in steps:
        if ac_edges and cfgq.must_pass_edge(nx, bid, ac_edges):
            r2.ok("next_packet:autocommit-guard:L-step", "sqlite3_step dominated by the stale-iterator guard")
        else:
            r2.violation(nx.file, nx.name, n.get("l"), "next_packet:autocommit-guard", "sqlite3_step reachable without the stale-iterator guard")
    fin_edges = cfgq.guard_edges(nx, lambda c: cfgq.zero_test(c, lambda e: _ends(e, "finished")))
    first_sites = steps + [(b.id, i, n) for (b, i, r, n) in nx.calls_to("cif_packet_create_norm")]
    if fin_edges and all(cfgq.must_pass_edge(nx, bid, fin_edges) for (bid, _, _) in first_sites):
        r2.ok("next_packet:finished-tested-first", "every effect is dominated by `finished == 0`")
    else:
        r2.violation(nx.file, nx.name, nx.line, "next_packet:finished-tested-first", "an effect is reachable without testing iterator->finished")
    finished_code = prog.macro_int("CIF_FINISHED")
    if any(const(n.get("e")) == finished_code for (b, i, r, n) in nx.returns() if n.get("e")):
        r2.ok("next_packet:returns-CIF_FINISHED")
    else:
        r2.violation(nx.file, nx.name, nx.line, "next_packet:returns-CIF_FINISHED", "no `return CIF_FINISHED`")
    fin_sets = [(b.id, i, n) for (b, i, r, n) in nx.eval_sites("asg") if _ends(n.get("lhs"), "finished")]
    done_blocks = [b.id for b in nx.blocks.values() if b.label and b.label.get("k") == "case" and b.label.get("v") == 101]
    for (bid, idx, n) in fin_sets:
        if const(n.get("rhs")) in (0, None) or (done_blocks and (bid in done_blocks or cfgq.must_precede(nx, (bid, idx), [(d, -1) for d in done_blocks]))):
            r2.ok("next_packet:finished-set-under-SQLITE_DONE")
        else:
            r2.violation(nx.file, nx.name, n.get("l"), "next_packet:finished-set-under-SQLITE_DONE",
                         "iterator->finished is set outside `case SQLITE_DONE`")
    _ok_exit_store(prog, a, r2, nx, "previous_row_num", lambda rhs: const(rhs) is None, "previous_row_num = current_row")
    rm = prog.fn("cif_pktitr_remove_packet")
    _ok_exit_store(prog, a, r2, rm, "previous_row_num", lambda rhs: (const(rhs) or 0) < 0, "previous_row_num = <negative>")
    gp_store = [(b.id, i) for (b, i, r, n) in gp.eval_sites("asg") if _ends(n.get("lhs"), "previous_row_num") and (const(n.get("rhs")) or 0) < 0]
    _ok_exit_store(prog, a, r2, gp, "previous_row_num", lambda rhs: (const(rhs) or 0) < 0, "previous_row_num = <negative> (no current packet yet)")

    # ---------------- R3 savepoint pairing / foreign items
    r3 = chk.rule("R3-savepoint-pairing", "inside the iterator's transaction, update/remove pair SAVE with RELEASE on success "
                  "and ROLLBACK TO on failure; foreign items are refused before the release", floor=2)
    c05.check_balance(prog, chk, r3, only={"cif_pktitr_update_packet", "cif_pktitr_remove_packet", "cif_pktitr_next_packet"})
    up = prog.fn("cif_pktitr_update_packet")
    wl = prog.macro_int("CIF_WRONG_LOOP")
    itu = a.results[up.key]
    wl_exits = [(st, av) for st, av, node in itu.exits if av is not None and av.is_const() and av.value() == wl]
    if not wl_exits:
        r3.violation(up.file, up.name, up.line, "wrong-loop-refused", "no exit of cif_pktitr_update_packet returns CIF_WRONG_LOOP")
    elif any(st.ts[1] for st, av in wl_exits):
        r3.violation(up.file, up.name, up.line, "wrong-loop-refused", "CIF_WRONG_LOOP is returned after the savepoint was released")
    else:
        r3.ok("update_packet:wrong-loop-refused", "%d CIF_WRONG_LOOP exit states, none after RELEASE" % len(wl_exits))
    for fn in (up, rm):
        itx = a.results[fn.key]
        opened = any(k == "open" for (k, l, d) in itx.events)
        ok_commit = all(st.ts[1] for st, av, node in itx.exits if txm.ret_class(av) == "ok")
        if opened and ok_commit:
            r3.ok("%s:ok-exits-released" % fn.name, "every CIF_OK exit follows a successful RELEASE")
        else:
            r3.violation(fn.file, fn.name, fn.line, "%s:ok-exits-released" % fn.name, "a CIF_OK exit is reached without a successful RELEASE")

    internal_users_rule(prog, chk)

    # ---------------- shared: the iterator's statements address one loop of one container (C04 R5); the names it hands out are
    # validated as data names (C09 R6)
    from . import c04, c09
    c04.container_scoping_rule(prog, chk, rid="R6", primary=False)
    r8 = chk.rule("R8-null-category-is-not-scalar", "every decision whether a loop is the scalar loop answers no for a NULL category: the "
                  "iterator renumbers packets after a removal only for the scalar loop (shared with C04 R6)", primary=False, floor=3)
    c04.scalar_category_rule(prog, r8)

    r7 = chk.rule("R7-validator-matches-domain", "each name is (re-)validated by the normaliser of its own kind (shared with C09 R6)",
                  primary=False, floor=8)
    if c09.validator_domain(prog, r7) < 8:
        raise Broken("fewer than 8 direct normaliser calls found")

    # ---------------- R5 hash iterations (a packet is delivered with a value for every item of the loop)
    r5 = chk.rule("R5-hash-iteration-intact", "no HASH_ITER body writes the iteration's look-ahead variable (next_packet moves every "
                  "remaining entry into the caller's packet; clean-up and serialisation visit every entry)", primary=False, floor=8)
    from .. import memrules
    if memrules.hash_iter_lookahead(prog, r5) < 8:
        raise Broken("fewer than 8 HASH_ITER loops found")


def _ok_exit_store(prog, a, rule, fn, field, rhs_pred, what):
    it = a.results[fn.key]
    stores = [(b.id, i) for (b, i, r, n) in fn.eval_sites("asg") if _ends(n.get("lhs"), field) and rhs_pred(n.get("rhs"))]
    ok_nodes = {}
    for st, av, node in it.exits:
        if node is not None and txm.ret_class(av) == "ok":
            ok_nodes[node["id"]] = node
    pos = {n["id"]: (b.id, i) for (b, i, r, n) in fn.returns()}
    if not ok_nodes:
        raise Broken("%s: no CIF_OK exit found" % fn.name)
    for nid, node in ok_nodes.items():
        key = "%s:ok-exit-after:%s" % (fn.name, what)
        # a return node shared by success and failure (`return _error_code`) is judged only if all its states are OK
        states = [txm.ret_class(av) for st, av, n2 in it.exits if n2 is node]
        if any(s != "ok" for s in states):
            rule.unproved(key, "return at L%s is shared by success and failure states" % node.get("l"))
            continue
        if stores and cfgq.must_precede(fn, pos[nid], stores):
            rule.ok(key, "CIF_OK exit at L%s preceded by the store on every path" % node.get("l"))
        else:
            rule.violation(fn.file, fn.name, node.get("l"), key, "CIF_OK exit reachable without `%s`" % what)
