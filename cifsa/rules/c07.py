"""C07 — values stored in a CIF are read back identical: agreement of the two hand-written codecs, independence."""
import re

from ..facts import Broken, strip, const, walk, walk_eval, show
from ..interp import path
from .. import cfgq, scantab, memrules
from . import c04
from .. import sqlmodel

COMPATIBLE = {("text16", "text16"), ("text", "text"), ("int", "int"), ("double", "double"), ("blob", "blob"),
              ("text16", "text"), ("text", "text16")}


def field_of(p):
    """Normalise an access path to a value field name."""
    if p is None:
        return None
    p = re.sub(r"^\(?\*?\w+\)?(->|\.)", "", p)
    return p


def writer_map(m):
    """{stmt: {field: set((column, kind))}} from the sqlite3_bind_* sites of SET_VALUE_PROPS expansions."""
    out = {}
    for s in m.sites:
        if not s["is_bind"] or "SET_VALUE_PROPS" not in s["macros"]:
            continue
        if s["stmt"] is None or s["index"] is None:
            continue
        cols = {p["n"]: p["column"] for p in m.params.get(s["stmt"], []) if p["context"] == "insert"}
        col = cols.get(s["index"])
        v = strip(s["value"])
        if s["kind"] == "blob":
            f = "<blob>"
        elif s["kind"] == "double":
            f = "<number>"
        else:
            f = field_of(path(v))
        out.setdefault(s["stmt"], {}).setdefault(f, set()).add((col, s["kind"], s["fn"].name))
    return out


def reader_map(prog, m):
    """{stmt: {field: set((column, kind))}} from the sqlite3_column_* sites of GET_VALUE_PROPS expansions."""
    out = {}
    by_fn = {}
    for s in m.sites:
        if s["is_bind"] or "GET_VALUE_PROPS" not in s["macros"]:
            continue
        by_fn.setdefault(s["fn"].key, []).append(s)
    for key, sites in by_fn.items():
        fn = sites[0]["fn"]
        # temp locals: did -> (stmt, column index, kind)
        temp = {}
        for (b, i, r, n) in fn.eval_sites():
            if n.get("k") == "decl":
                for v in n.get("vars", []):
                    if v.get("init") is None:
                        continue
                    for x in walk(v["init"]):
                        for s in sites:
                            if x is s["node"] or x.get("id") == s["node"]["id"]:
                                temp[v["did"]] = s
            elif n.get("k") == "asg" and n.get("op") == "=":
                l = strip(n.get("lhs"))
                hit = [s for s in sites for x in walk(n.get("rhs")) if x.get("id") == s["node"]["id"]]
                if not hit:
                    continue
                s = hit[0]
                if isinstance(l, dict) and l.get("k") == "ref" and l.get("dk") == "local":
                    temp[l["did"]] = s
                else:
                    f = field_of(path(l))
                    if s["kind"] in ("bytes", "bytes16"):
                        continue
                    _add(out, m, s, f)
        # uses of the temps: copies into a field, or deserialisation of the blob
        for (b, i, r, n) in fn.calls():
            c = n.get("callee")
            if c in ("u_strncpy", "strncpy", "memcpy", "u_strcpy", "strcpy") and len(n.get("args", [])) >= 2:
                src = strip(n["args"][1])
                if isinstance(src, dict) and src.get("k") == "ref" and src.get("did") in temp:
                    _add(out, m, temp[src["did"]], field_of(path(strip(n["args"][0]))))
            if c == "cif_value_deserialize" and n.get("args"):
                src = strip(n["args"][0])
                if isinstance(src, dict) and src.get("k") == "ref" and src.get("did") in temp:
                    _add(out, m, temp[src["did"]], "<blob>")
    return out


def _add(out, m, s, f):
    if s["stmt"] is None or s["index"] is None:
        return
    np, ok, msg, cols = m.compiled.get(s["stmt"], (0, False, "", None))
    col = cols[s["index"]] if cols and 0 <= s["index"] < len(cols) else None
    out.setdefault(s["stmt"], {}).setdefault(f, set()).add((col, s["kind"], s["fn"].name))


def size_desc(n):
    n = strip(n)
    if not isinstance(n, dict):
        return "?"
    if n.get("k") == "sizeof":
        return "sizeof(%s)" % n.get("of_type")
    if n.get("k") == "bin" and n.get("op") == "*":
        l, r = strip(n.get("lhs")), strip(n.get("rhs"))
        for a, b in ((l, r), (r, l)):
            if isinstance(b, dict) and b.get("k") == "sizeof":
                return "n*sizeof(%s)" % b.get("of_type")
    return show(n)[:40]


def codec_events(fn, writer, with_block=False):
    """Ordered codec events of a function: ('buf', descriptor, innermost macro) / ('call', normalised callee)."""
    order = scantab.rpo(fn)
    evs = []
    bufname = "cif_buf_write" if writer else "cif_buf_read"
    for (b, i, r, n) in fn.calls():
        c = n.get("callee")
        if c == bufname and len(n.get("args", [])) >= 3:
            evs.append((order.get(b.id, 1 << 30), i, n["id"], ("buf", size_desc(n["args"][2]), tuple(n.get("ms") or ()), n.get("l")), b.id))
        elif c in ("cif_list_serialize", "cif_list_deserialize", "cif_table_serialize", "cif_table_deserialize"):
            evs.append((order.get(b.id, 1 << 30), i, n["id"], ("call", c.replace("deserialize", "serialize"), tuple(n.get("ms") or ()), n.get("l")), b.id))
    evs.sort()
    if with_block:
        return [e[3] + (e[4],) for e in evs]
    return [e[3] for e in evs]


CODEC_MACROS = ("SERIALIZE_USTRING", "DESERIALIZE_USTRING", "SERIALIZE_QUOTED_FLAG", "DESERIALIZE_QUOTED_FLAG",
                "SERIALIZE", "DESERIALIZE")


def run(prog, chk):
    chk.level = "other"
    chk.explanation = ("Agreement of the hand-written writer/reader pairs, decided on the code: the column each value field is "
                       "bound to (SET_VALUE_PROPS, through each statement's own column list) is the column it is read from "
                       "(GET_VALUE_PROPS); serialise/deserialise pairs move the same sequence of field widths and nested "
                       "codecs, and the table terminator flags written are the case labels read; stored copies are "
                       "independent of the caller's objects (no argument escapes; SQLITE_STATIC only for pointers that outlive "
                       "the step); buffer primitives clamp.  Equality of round-tripped values is not decided.")
    m = c04.model(prog)

    r1 = chk.rule("R1-column-agreement", "each value field is read from a column it was bound to, with compatible binding and "
                  "reading kinds, for every writer statement x reader statement", floor=12)
    W = writer_map(m)
    R = reader_map(prog, m)
    if len(W) < 2 or len(R) < 2:
        raise Broken("SET_VALUE_PROPS / GET_VALUE_PROPS expansions not found (writers %s, readers %s)" % (sorted(W), sorted(R)))
    for rs, rfields in sorted(R.items()):
        for f, rset in sorted(rfields.items(), key=lambda kv: str(kv[0])):
            for (rcol, rkind, rfn) in sorted(rset, key=str):
                for ws, wfields in sorted(W.items()):
                    key = "%s<-%s:%s" % (rs, ws, f)
                    # char and numb share the text columns
                    cands = set()
                    for wf, wset in wfields.items():
                        if wf == f or (f and wf and f.split(".")[-1] == wf.split(".")[-1] and f.split(".")[-1] in ("text", "quoted")):
                            cands |= wset
                    if not cands:
                        r1.violation("internal/utils.h", rfn, 0, "unwritten-field:" + key,
                                     "field %s is read from %s.%s but %s never binds it" % (f, rs, rcol, ws))
                        continue
                    wcols = {c for (c, k, _) in cands}
                    if rcol not in wcols:
                        r1.violation("internal/utils.h", rfn, 0, "column-mismatch:" + key,
                                     "field %s is read from column %s of %s but written to %s by %s" % (f, rcol, rs, sorted(map(str, wcols)), ws))
                        continue
                    kinds = {k for (c, k, _) in cands if c == rcol}
                    if not any((wk, rkind) in COMPATIBLE for wk in kinds):
                        r1.violation("internal/utils.h", rfn, 0, "kind-mismatch:" + key,
                                     "field %s: column %s is bound as %s and read as %s" % (f, rcol, sorted(kinds), rkind))
                        continue
                    r1.ok(key, "column %s (%s/%s)" % (rcol, "|".join(sorted(kinds)), rkind))
    chk.extra_cov["writer_statements"] = sorted(W)
    chk.extra_cov["reader_statements"] = sorted(R)

    r2 = chk.rule("R2-serialise-agreement", "serialise/deserialise pairs move the same field widths in the same order and nest "
                  "the same codecs; table flags written are the flags read", floor=6)
    vfile = "value.c"
    fns = [f for f in prog.all_functions() if f.unit == vfile]
    wsig, rsig = {}, {}
    for fn in fns:
        for writer, sig in ((True, wsig), (False, rsig)):
            groups = {}
            for ev in codec_events(fn, writer):
                kind, desc, ms, line = ev
                if kind != "buf":
                    continue
                inner = next((x for x in ms if x in CODEC_MACROS), None)
                if inner is None:
                    continue
                groups.setdefault((fn.name, line, ms), []).append(desc)
                groups[(fn.name, line, ms)].append  # keep order
            for (fname, line, ms), descs in groups.items():
                inner = next(x for x in ms if x in CODEC_MACROS)
                sig.setdefault(inner, set()).add(tuple(descs))
    for wm, rm in (("SERIALIZE_USTRING", "DESERIALIZE_USTRING"), ("SERIALIZE_QUOTED_FLAG", "DESERIALIZE_QUOTED_FLAG"),
                   ("SERIALIZE", "DESERIALIZE")):
        ws, rs_ = wsig.get(wm), rsig.get(rm)
        if not ws or not rs_:
            raise Broken("codec macro expansions not found: %s %s" % (wm, rm))
        if len(ws) == 1 and ws == rs_:
            r2.ok("%s/%s" % (wm, rm), " ".join(next(iter(ws))))
        else:
            r2.violation(vfile, wm, 0, "width-sequence:%s" % wm, "%s writes %s, %s reads %s" % (wm, sorted(ws), rm, sorted(rs_)))
    for wn, rn in (("cif_list_serialize", "cif_list_deserialize"), ("cif_table_serialize", "cif_table_deserialize")):
        wf, rf = prog.fn(wn), prog.fn(rn)
        we = [(k, d) for (k, d, ms, l) in codec_events(wf, True) if not any(x in CODEC_MACROS for x in ms)]
        re_ = [(k, d) for (k, d, ms, l) in codec_events(rf, False) if not any(x in CODEC_MACROS for x in ms)]
        if set(we) == set(re_) and we:
            r2.ok("%s/%s:direct" % (wn, rn), "%s" % sorted(set(we)))
        else:
            r2.violation(vfile, wn, wf.line, "direct-widths:%s" % wn, "%s writes %s directly, %s reads %s" % (wn, we, rn, re_))

        def macro_seq(fn, writer):
            seq = []
            seen = set()
            last = None
            for (k, d, ms, l, bid) in codec_events(fn, writer, with_block=True):
                outer = [x for x in ms if x in CODEC_MACROS]
                if outer:
                    top = outer[-1]
                    if (top, l) not in seen:
                        seen.add((top, l))
                        # the same codec on the other arm of a branch fills the same slot
                        if last is not None and last[0] == top and cfgq.exclusive(fn, last[1], bid):
                            continue
                        seq.append(top.replace("DESERIALIZE", "SERIALIZE"))
                        last = (top, bid)
            return seq
        ws_, rs2 = macro_seq(wf, True), macro_seq(rf, False)
        if ws_ == rs2 and ws_:
            r2.ok("%s/%s:nesting" % (wn, rn), " ".join(ws_))
        else:
            r2.violation(vfile, wn, wf.line, "nesting:%s" % wn, "%s nests %s, %s nests %s" % (wn, ws_, rn, rs2))
    # per-kind nesting inside SERIALIZE / DESERIALIZE
    def per_kind(fn, macro, cond_suffix):
        out = {}
        for sb in fn.blocks.values():
            if not sb.term or sb.term.get("k") != "SwitchStmt":
                continue
            c = cfgq.cond_of(fn, sb)
            if c is None or macro not in (c.get("ms") or []) or not (path(strip(c)) or "").endswith(cond_suffix):
                continue
            order = scantab.rpo(fn)
            labels = {}
            for s in sb.succs:
                if s is not None and fn.blocks[s].label and fn.blocks[s].label.get("k") == "case":
                    labels[fn.blocks[s].label["v"]] = s
            for v, s in labels.items():
                others = {x for vv, x in labels.items() if x != s}
                # fall-through into a later label is part of this case
                reach = cfgq.reach(fn, [s], {sb.id})
                evs = []
                for (b, i, r, n) in fn.calls():
                    if b.id not in reach or macro not in (n.get("ms") or []):
                        continue
                    cname = n.get("callee")
                    ms = n.get("ms") or []
                    inner = next((x for x in ms if x in CODEC_MACROS), None)
                    if cname in ("cif_buf_write", "cif_buf_read") and inner and inner != macro:
                        evs.append((order.get(b.id, 0), i, inner.replace("DESERIALIZE", "SERIALIZE")))
                    elif cname and re.match(r"cif_(list|table)_(de)?serialize$", cname):
                        evs.append((order.get(b.id, 0), i, cname.replace("deserialize", "serialize")))
                evs.sort()
                seq = []
                for e in evs:
                    if not seq or seq[-1] != e[2]:
                        seq.append(e[2])
                out.setdefault(v, set()).add(tuple(seq))
        return out
    ser_fn = prog.fn("cif_list_serialize")
    des_fn = prog.fn("cif_list_deserialize")
    pk_w = per_kind(ser_fn, "SERIALIZE", "kind")
    pk_r = per_kind(des_fn, "DESERIALIZE", "_kind")
    if not pk_w or not pk_r:
        raise Broken("SERIALIZE / DESERIALIZE kind switches not found")
    for v in sorted(set(pk_w) | set(pk_r)):
        a, b = pk_w.get(v), pk_r.get(v)
        # a kind reachable by fall-through sees a superset; compare the first nested codec
        fa = {s[:2] for s in a} if a else None
        fb = {s[:2] for s in b} if b else None
        if fa == fb and fa is not None:
            r2.ok("kind %d nesting" % v, "%s" % sorted(fa))
        else:
            r2.violation(vfile, "SERIALIZE", 0, "kind-nesting:%d" % v, "kind %d: SERIALIZE nests %s, DESERIALIZE nests %s" % (v, a, b))
    tw, tr = prog.fn("cif_table_serialize"), prog.fn("cif_table_deserialize")
    written = {const(n.get("rhs")) for (b, i, r, n) in tw.eval_sites("asg") if path(strip(n.get("lhs"))) == "flag"}
    read = set()
    for sb in tr.blocks.values():
        if sb.term and sb.term.get("k") == "SwitchStmt":
            c = cfgq.cond_of(tr, sb)
            if c is not None and path(strip(c)) == "flag":
                for s in sb.succs:
                    if s is not None and tr.blocks[s].label and tr.blocks[s].label.get("k") == "case":
                        read.add(tr.blocks[s].label["v"])
    if written == read and written:
        r2.ok("table-flags", "%s" % sorted(written))
    else:
        r2.violation(vfile, "cif_table_serialize", tw.line, "table-flags", "flags written %s, flags read %s" % (sorted(map(str, written)), sorted(read)))

    r3 = chk.rule("R3-static-binds-outlive-step", "SQLITE_STATIC text/blob binds are followed by the statement's step before any "
                  "free of the bound pointer; transient data is bound with a destructor", floor=8)
    n_static = 0
    for s in m.sites:
        if not s["is_bind"] or s["dtor"] is None:
            continue
        fn, n = s["fn"], s["node"]
        d = strip(s["dtor"])
        is_static = const(d) == 0
        key = "%s:%s(%s,%s)" % (fn.name, s["api"], s["stmt"], s["index"])
        vp = path(strip(s["value"]))
        if not is_static:
            r3.ok(key, "destructor %s" % show(d))
            continue
        n_static += 1
        if vp is None:
            r3.unproved(key, "bound expression has no access path")
            continue
        root = re.match(r"\w+", vp.lstrip("*(")).group(0) if re.match(r"\w+", vp.lstrip("*(")) else None
        frees = [(b.id, i) for (b, i, r, c) in fn.calls_to("free") if c.get("args") and path(strip(c["args"][0])) == vp]
        steps = [(b.id, i) for (b, i, r, c) in fn.calls_to("sqlite3_step")]
        if not frees:
            r3.ok(key, "`%s` is not freed in this function" % vp)
            continue
        # every free reachable from the bind must be preceded by a step (or by clearing the bindings)
        clears = [(b.id, i) for (b, i, r, c) in fn.calls() if c.get("callee") in ("sqlite3_clear_bindings", "sqlite3_reset", "sqlite3_finalize")]
        bad = False
        after_bind = cfgq.reach(fn, [s["block"]])
        for (fb, fi) in frees:
            if fb not in after_bind:
                continue
            # paths bind -> free avoiding step/clear
            barrier = {b for (b, i) in steps + clears if b != s["block"]}
            r = cfgq.reach(fn, [s["block"]], barrier)
            same_block_step = any(b == s["block"] and i > s["root"] for (b, i) in steps + clears)
            if fb in r and not same_block_step and fb != s["block"]:
                bad = True
        if bad:
            r3.unproved(key, "`%s` may be freed after the bind without an intervening step on some path (error paths; statement is reset/dropped there)" % vp)
        else:
            r3.ok(key, "`%s` freed only after the step" % vp)
    if n_static < 8:
        raise Broken("only %d SQLITE_STATIC binds found" % n_static)

    r4 = chk.rule("R4-buffer-primitives", "cif_buf_read clamps to limit - position; cif_buf_write checks position + len for "
                  "wrap-around before copying, and copies only where the capacity is known to cover position + len", primary=False, floor=3)
    br, bw = prog.fn("cif_buf_read"), prog.fn("cif_buf_write")
    mc = [(b.id, i, n) for (b, i, r, n) in br.calls_to("memcpy")]
    clamp = [(b.id, i) for (b, i, r, n) in br.eval_sites("asg") if path(strip(n.get("lhs"))) == "max" and path(strip(n.get("rhs"))) == "available"]
    guard = cfgq.guard_edges(br, lambda c: (lambda c2: "true" if c2.get("k") == "bin" and c2.get("op") == ">" and path(strip(c2.get("lhs"))) == "max"
                                            and path(strip(c2.get("rhs"))) == "available" else None)(strip(c)))
    posg = cfgq.guard_edges(br, lambda c: (lambda c2: "false" if c2.get("k") == "bin" and c2.get("op") == ">=" and (path(strip(c2.get("lhs"))) or "").endswith("position")
                                           and (path(strip(c2.get("rhs"))) or "").endswith("limit") else None)(strip(c)))
    if mc and clamp and guard and posg and all(cfgq.must_pass_edge(br, b, posg) for (b, _, _) in mc):
        r4.ok("cif_buf_read", "position < limit dominates the copy; max clamped to limit - position")
    else:
        r4.violation(br.file, br.name, br.line, "cif_buf_read-clamp", "cif_buf_read copies without clamping to the bytes available")
    mcw = [(b.id, i, n) for (b, i, r, n) in bw.calls_to("memcpy")]
    ovf = cfgq.guard_edges(bw, lambda c: (lambda c2: "false" if c2.get("k") == "bin" and c2.get("op") == "<" and path(strip(c2.get("lhs"))) == "needed_cap"
                                          and (path(strip(c2.get("rhs"))) or "").endswith("position") else None)(strip(c)))
    if mcw and ovf and all(cfgq.must_pass_edge(bw, b, ovf) for (b, _, _) in mcw):
        r4.ok("cif_buf_write", "wrap-around check dominates the copy")
    else:
        r4.violation(bw.file, bw.name, bw.line, "cif_buf_write-overflow", "cif_buf_write copies without the position + len wrap-around check")

    # room for the bytes copied: needed <= capacity holds at the copy - either the growth branch was not needed, or the capacity
    # stored after growing is a value known to be >= needed (loop exit test, or assigned from it)
    needed = None
    for (b, i, r, d) in bw.eval_sites("decl"):
        for v in d.get("vars", []):
            if v.get("init") is not None and any(x.get("k") == "member" and x.get("name") == "position" for x in walk(v["init"])) \
                    and any(x.get("k") == "ref" and x.get("dk") == "parm" for x in walk(v["init"])):
                needed = v["name"]
    if needed is None:
        raise Broken("cif_buf_write: the local holding position + len was not found")

    def no_growth(c):
        t = strip(c)
        if isinstance(t, dict) and t.get("k") == "bin" and t.get("op") in (">", "<=", "<", ">="):
            l, rr = path(strip(t.get("lhs"))) or "", path(strip(t.get("rhs"))) or ""
            if l == needed and rr.endswith("capacity"):
                return {">": "false", "<=": "true"}.get(t["op"])
            if rr == needed and l.endswith("capacity"):
                return {"<": "false", ">=": "true"}.get(t["op"])
        return None
    ng = cfgq.guard_edges(bw, no_growth)
    cap_stores = [(b, i, a) for (b, i, r, a) in bw.eval_sites("asg") if (path(strip(a.get("lhs"))) or "").endswith("capacity") and a.get("op") == "="]
    good = set()
    detail = []
    for (b, i, a) in cap_stores:
        P = path(strip(a.get("rhs")))
        if P == needed:
            good.add(b.id)
            continue
        if not P or not re.match(r"^\w+$", P):
            continue

        def at_least(c, P=P):
            t = strip(c)
            if isinstance(t, dict) and t.get("k") == "bin" and t.get("op") in ("<", ">=", ">", "<="):
                l, rr = path(strip(t.get("lhs"))), path(strip(t.get("rhs")))
                if l == P and rr == needed:
                    return {"<": "false", ">=": "true"}.get(t["op"])
                if l == needed and rr == P:
                    return {">": "false", "<=": "true"}.get(t["op"])
            return None
        ge = cfgq.guard_edges(bw, at_least)
        gens, kills = [], []
        for (b2, i2, r2, a2) in bw.eval_sites("asg"):
            if path(strip(a2.get("lhs"))) == P:
                (gens if (a2.get("op") == "=" and path(strip(a2.get("rhs"))) == needed) else kills).append((b2.id, i2))
        for (b2, i2, r2, d2) in bw.eval_sites("decl"):
            for v in d2.get("vars", []):
                if v["name"] == P and v.get("init") is not None:
                    (gens if path(strip(v["init"])) == needed else kills).append((b2.id, i2))
        mf = cfgq.MustFact(bw, gen_edges=ge, gen_sites=gens, kill_sites=kills)
        if mf.at(b.id, i):
            good.add(b.id)
            detail.append("%s >= %s at L%s" % (P, needed, a.get("l")))
    free = cfgq.reach(bw, [bw.entry], good, ng)
    if mcw and all(b not in free for (b, _, _) in mcw) and (ng or good):
        r4.ok("cif_buf_write:room", "the copy is reached only where %s <= capacity was tested or after storing a capacity known to be >= %s (%s)"
              % (needed, needed, "; ".join(detail) or "assigned from it"))
    else:
        r4.violation(bw.file, bw.name, mcw[0][2].get("l") if mcw else bw.line, "cif_buf_write-room",
                     "the copy of `len` bytes at position can be reached after storing a capacity that is not known to be at least "
                     "`%s` (no loop-exit test or assignment establishes it): a single write larger than one growth step overruns "
                     "the block" % needed)

    r5 = chk.rule("R5-storage-loops-progress", "no loop of the storage / serialisation units is idempotent (call-free and without "
                  "loop-carried state): the buffer-growth and copy loops advance for every size", primary=False, floor=30)
    n_loops = memrules.stuck_loops(prog, r5, only_units=("value.c", "container.c", "loop.c", "pktitr.c", "packet.c", "map.c", "cif.c"))
    if n_loops < 30:
        raise Broken("only %d loops found in the storage units" % n_loops)

    r6 = chk.rule("R6-stored-attribute-survives", "an attribute read back from storage (assigned inside DESERIALIZE* / GET_VALUE_PROPS "
                  "from a non-constant) is not replaced afterwards by a callee that assigns a constant to the same field of the "
                  "same object", primary=False, floor=8)
    n6 = clobber_rule(prog, r6)
    if n6 < 8:
        raise Broken("only %d storage-derived attribute stores found" % n6)


    r7 = chk.rule("R7-copy-field-correspondence", "where a stored copy of a value is made, each duplicated string goes to the field it "
                  "was read from (keys keep their original spelling, numbers their digit strings)", primary=False, floor=5)
    if memrules.dup_field_correspondence(prog, r7) < 5:
        raise Broken("fewer than 5 duplicated-field stores found")

    r13 = chk.rule("R13-no-stale-statement-parameter", "per function storing values with SET_VALUE_PROPS: every bind of the selected kind's "
                   "arm is evaluated whenever the arm is, or the statement's bindings are cleared unconditionally between two "
                   "executions", primary=False, floor=3)
    if binding_hygiene_rule(prog, r13) < 3:
        raise Broken("fewer than 3 functions expanding SET_VALUE_PROPS found")

    r12 = chk.rule("R12-storing-paths-balanced", "the functions that store a value (set_value, add_packet, an iterator update) return "
                   "with the transaction depth they were entered with: a refusal that rolls back to a savepoint it never opened, or "
                   "leaves one open, undoes or half-applies neighbouring stores (the balance rule of C05 for these functions)",
                   primary=False, floor=3)
    from . import c05
    c05.check_balance(prog, chk, r12, only={"cif_container_set_value", "cif_container_set_all_values", "cif_loop_add_packet",
                                            "cif_pktitr_update_packet", "cif_loop_add_item_internal", "cif_loop_add_item"})

    r11 = chk.rule("R11-character-text-stored-verbatim", "the text of a character value is not handed to sqlite3_bind_text16 "
                   "unexamined: SQLite takes a leading U+FEFF / U+FFFE for a byte-order mark (dropped; the latter also swaps the "
                   "bytes of the rest) and returns U+FFFE / U+FFFF from its UTF-8 storage as U+FFFD; names and codes are "
                   "refused by the validator if they contain these, value text is not", floor=3)
    from .. import textstore
    if textstore.rule(prog, r11) < 20:
        raise Broken("fewer than 20 sqlite3_bind_text16 calls found")

    r10 = chk.rule("R10-hash-key-length", "every value handed out in a packet or table is filed under u_strlen(key) * sizeof(UChar) "
                   "bytes of the very key that is stored with it: a length taken from another name makes the value unreachable "
                   "by its name (shared with C09 R5 / C19 R7)", primary=False, floor=5)
    if memrules.hash_key_length(prog, r10) < 5:
        raise Broken("fewer than 5 uthash insertions found")

    r9 = chk.rule("R9-string-field-order", "serialiser and deserialiser of one object agree on the order of its strings (a table "
                  "entry's normalised key, then its original spelling, then the value's text)", primary=False, floor=3)
    if ustring_field_order(prog, r9) < 3:
        raise Broken("fewer than 3 serialise/deserialise pairs")

    r8 = chk.rule("R8-sign-recomputed-from-sign-carrier", "the sign of a number is not stored: every GET_VALUE_PROPS expansion recomputes "
                  "it from the stored field that carries it (the text), never from the digit strings or scale",
                  primary=False, floor=3)
    if sign_source_rule(prog, r8) < 3:
        raise Broken("fewer than 2 sign recomputations found in GET_VALUE_PROPS expansions")


def ustring_field_order(prog, rule):
    """The strings of one serialised object are told apart only by their position: the n-th string a serialiser writes must be
    the field the deserialiser stores the n-th string it reads into (locals are followed to the fields they are assigned to)."""
    n_pairs = 0

    def last(pth):
        return re.split(r"->|\.", pth)[-1] if pth else None

    def arms(e):
        """expressions a (possibly conditional) expression can evaluate to, NULL constants dropped"""
        e = strip(e)
        if isinstance(e, dict) and e.get("k") == "cond":
            return arms(e.get("then")) + arms(e.get("else"))
        if isinstance(e, dict) and const(e) == 0:
            return []
        return [e]

    for wn, rn in (("cif_table_serialize", "cif_table_deserialize"), ("cif_list_serialize", "cif_list_deserialize"),
                   ("cif_value_serialize", "cif_value_deserialize")):
        wf, rf = prog.fn(wn), prog.fn(rn)
        worder, rorder = scantab.rpo(wf), scantab.rpo(rf)
        wseq = []
        for (b, i, r, n) in wf.eval_sites("decl"):
            if "SERIALIZE_USTRING" not in (n.get("ms") or []):
                continue
            for v in n.get("vars", []):
                if v.get("t", "").replace(" ", "").startswith("constUChar*") and v.get("init") is not None:
                    fields = {last(path(a)) for a in arms(v["init"]) if path(a)}
                    wseq.append((worder.get(b.id, 1 << 30), i, n.get("l"), fields, b.id))
        wseq.sort(key=lambda t: t[:2])
        merged = []
        for w in wseq:
            if merged and cfgq.exclusive(wf, merged[-1][4], w[4]):
                merged[-1] = merged[-1][:3] + (merged[-1][3] | w[3], merged[-1][4])     # alternative arms of one slot
            else:
                merged.append(w)
        wseq = merged
        # reader: destination of each DESERIALIZE_USTRING, locals resolved through `obj->field = local` stores
        local_fields = {}
        for (b, i, r, a) in rf.eval_sites("asg"):
            lp = path(strip(a.get("lhs")))
            if not lp or ("->" not in lp and "." not in lp) or a.get("op") != "=":
                continue
            for x in arms(a.get("rhs")):
                xp = path(x)
                if xp and re.match(r"^\w+$", xp):
                    local_fields.setdefault(xp, set()).add(last(lp))
        rseq = []
        for (b, i, r, a) in rf.eval_sites("asg"):
            if "DESERIALIZE_USTRING" not in (a.get("ms") or []) or const(a.get("rhs")) == 0:
                continue
            rp = path(strip(a.get("rhs")))
            lp = path(strip(a.get("lhs")))
            if rp is None or lp is None or not re.match(r"^\w+$", rp):
                continue
            if re.match(r"^\w+$", lp):
                fields = set(local_fields.get(lp, ()))
            else:
                fields = {last(lp)}
            rseq.append((rorder.get(b.id, 1 << 30), i, a.get("l"), fields))
        rseq.sort(key=lambda t: t[:2])
        if not wseq or len(wseq) != len(rseq):
            raise Broken("%s writes %d strings, %s reads %d" % (wn, len(wseq), rn, len(rseq)))
        n_pairs += 1
        bad = None
        for k, (w, r_) in enumerate(zip(wseq, rseq)):
            if not (w[3] & r_[3]):
                bad = (k, w, r_)
                break
        # a reader slot that can only be one field must get that field
        if bad is None:
            for k, (w, r_) in enumerate(zip(wseq, rseq)):
                if len(r_[3]) == 1 and len(w[3]) == 1 and w[3] != r_[3]:
                    bad = (k, w, r_)
                    break
        if bad is None:
            rule.ok("%s/%s" % (wn, rn), "strings in order: %s" % ", ".join("/".join(sorted(w[3])) for w in wseq))
        else:
            k, w, r_ = bad
            rule.violation(wf.file, wn, w[2], "string-order:%s" % wn,
                           "string #%d written by %s (L%s) is `%s`, but %s stores string #%d (L%s) into `%s`: the two "
                           "functions disagree on the order of the strings of one object"
                           % (k + 1, wn, w[2], "/".join(sorted(w[3])), rn, k + 1, r_[2], "/".join(sorted(r_[3])) or "?"))
    return n_pairs


def sign_source_rule(prog, rule):
    """The sign of a number is not a stored column: when a value is read back, it is recomputed.  Of the stored
    fields only the text (leading '-') and the numeric column carry it; the digit strings are magnitudes (premise checked
    below: cif_value_get_number negates the digits-derived magnitude by the sign) and the scale is an exponent."""
    CARRIERS = ("text",)             # as_numb.text; the double column is not exact: "-0" and "-0.0(1)" store a value that is not < 0
    MAGNITUDES = ("digits", "su_digits", "scale")
    n = 0
    # premise: the digit string is a magnitude
    gn = prog.fn("cif_value_get_number")
    prem = False
    for (b, i, r, c) in gn.eval_sites("cond"):
        cp = [path(strip(x)) or "" for x in walk(c.get("c"))]
        if any(x.endswith("sign") for x in cp):
            t, e = strip(c.get("then")), strip(c.get("else"))
            neg = [x for x in (t, e) if isinstance(x, dict) and x.get("k") == "un" and x.get("op") == "-"]
            if len(neg) == 1:
                prem = True
    if not prem:
        raise Broken("cif_value_get_number no longer applies the sign to a digits-derived magnitude: the premise of the sign-source "
                     "rule (digit strings carry no sign) has to be re-established by reading")
    rule.ok("premise:digits-are-a-magnitude", "cif_value_get_number negates the magnitude computed from the digit string when sign < 0")
    n += 1
    for fn in prog.all_functions():
        for (b, i, r, a) in fn.eval_sites("asg"):
            lp = path(strip(a.get("lhs"))) or ""
            if not lp.endswith("as_numb.sign") or "GET_VALUE_PROPS" not in (a.get("ms") or []):
                continue
            n += 1
            reads, carriers, mags = set(), set(), set()
            for x in walk(a.get("rhs")):
                px = path(strip(x)) if x.get("k") in ("member", "ref") else None
                if px and "as_numb." in px:
                    f = px.rsplit("as_numb.", 1)[1]
                    reads.add(f)
            carriers |= {f for f in reads if f in CARRIERS}
            mags = {f for f in reads if f in MAGNITUDES}
            if carriers:
                rule.ok("%s:L%s" % (fn.name, a.get("l")), "sign recomputed from %s" % ", ".join(sorted(carriers)))
            else:
                rule.violation(fn.file, fn.name, a.get("l"), "sign-from-non-carrier:%s" % fn.name,
                               "the sign of a number read back from storage is computed from %s, which carry no sign (the stored text "
                               "does): negative numbers come back positive"
                               % (", ".join("as_numb." + m for m in sorted(mags)) or "no stored field"))
    return n


READER_MACROS = ("DESERIALIZE", "DESERIALIZE_USTRING", "DESERIALIZE_QUOTED_FLAG", "GET_VALUE_PROPS", "GET_COLUMN_STRING",
                 "GET_COLUMN_BYTESTRING")


def const_mod_sets(prog):
    """function name -> {field name: line}: fields whose *last* store through a parameter-rooted access path can be a
    constant when the function returns (a constant store, or a call handing the parameter to a function with the field in
    its own set, not followed on every path by a non-constant store of the field)."""
    from ..facts import root_var
    fns = {fn.name: fn for fn in prog.all_functions()}
    mod = {name: {} for name in fns}
    for _ in range(6):
        changed = False
        for name, fn in fns.items():
            params = {p["name"] for p in fn.params}
            # locals that alias (part of) a parameter's object: `struct numb_value_s *numb = &(n->as_numb)`
            for _k in range(2):
                for (b, i, r, n) in fn.eval_sites("decl"):
                    for v in n.get("vars", []):
                        if v.get("init") is not None and "*" in (v.get("t") or "") and root_var(v["init"]) in params:
                            params.add(v["name"])
            const_sites, data_sites = {}, {}
            for (b, i, r, n) in fn.eval_sites("asg"):
                l = strip(n.get("lhs"))
                if not isinstance(l, dict) or l.get("k") != "member" or n.get("op") != "=" or root_var(l) not in params:
                    continue
                (const_sites if const(n.get("rhs")) is not None else data_sites).setdefault(l["name"], []).append((b.id, i, n.get("l")))
            for (b, i, r, c) in fn.calls():
                g = c.get("callee")
                if g and g in mod and any(root_var(a) in params for a in c.get("args", [])):
                    for fld, ln in mod[g].items():
                        const_sites.setdefault(fld, []).append((b.id, i, ln))
            for fld, sites in const_sites.items():
                if fld in mod[name]:
                    continue
                ds = [(b, i) for (b, i, l) in data_sites.get(fld, [])]
                for (b, i, ln) in sites:
                    if not (ds and cfgq.must_follow(fn, (b, i), ds)):
                        mod[name][fld] = ln
                        changed = True
                        break
        if not changed:
            break
    return mod


def clobber_rule(prog, rule):
    from ..facts import root_var
    mod = const_mod_sets(prog)
    n = 0
    for fn in prog.all_functions():
        stores = []
        for (b, i, r, a) in fn.eval_sites("asg"):
            l = strip(a.get("lhs"))
            if not isinstance(l, dict) or l.get("k") != "member" or a.get("op") != "=":
                continue
            if not any(m in READER_MACROS for m in (a.get("ms") or [])):
                continue
            if const(a.get("rhs")) is not None:
                continue
            stores.append((b.id, i, a, l))
        if not stores:
            continue
        writes_root = {}
        for (b, i, r, x) in fn.eval_sites():
            if x.get("k") == "asg" and strip(x.get("lhs")).get("k") == "ref":
                writes_root.setdefault(strip(x["lhs"])["name"], set()).add(b.id)
            elif x.get("k") == "decl":
                for v in x.get("vars", []):
                    if v.get("init") is not None:
                        writes_root.setdefault(v["name"], set()).add(b.id)
        for (sb, si, a, l) in stores:
            n += 1
            fld, root = l["name"], root_var(l)
            lp = path(l)
            barrier = writes_root.get(root, set()) - {sb}
            after = cfgq.reach(fn, [sb], barrier)
            bad = None
            for (cb, ci, cr, c) in fn.calls():
                g = c.get("callee")
                if not g or fld not in mod.get(g, {}):
                    continue
                if not any(root_var(x) == root for x in c.get("args", [])):
                    continue
                if not ((cb.id == sb and ci > si) or (cb.id != sb and cb.id in after)):
                    continue
                # re-stored afterwards on every path?
                restores = [(b2, i2) for (b2, i2, a2, l2) in stores if path(l2) == lp and (b2, i2) != (sb, si)]
                if restores and cfgq.must_follow(fn, (cb.id, ci), restores):
                    continue
                bad = (c, g)
            key = "%s:%s@L%s" % (fn.name, lp, a.get("l"))
            if bad:
                c, g = bad
                rule.violation(fn.file, fn.name, c.get("l"), "attribute-clobbered:%s:%s" % (fn.name, fld),
                               "`%s` is read back from storage at L%s, but the later call to %s (L%s) assigns a constant to `%s` of "
                               "the same object (at L%s): the stored attribute is lost" % (lp, a.get("l"), g, c.get("l"), fld, mod[g][fld]))
            else:
                rule.ok(key, "no later callee overwrites `%s` with a constant" % fld)
    return n


def binding_hygiene_rule(prog, rule):
    """R13: a statement parameter left unbound keeps whatever the previous execution bound to it.  Per function that stores values
    with SET_VALUE_PROPS, one of two disciplines must hold: (a) within the expansion every sqlite3_bind_* of the selected
    kind's arm is evaluated whenever the arm is (the only conditions it depends on are the kind switch and the results of
    the binds before it), or (b) the statement's bindings are cleared between two executions unconditionally (the clearing
    call depends only on results of calls, not on the data).  With neither, a value's column shows the previous value's
    content (an exact number inherits the uncertainty digits of the number stored before it)."""
    from .. import loops
    n = 0
    for fn in prog.all_functions():
        binds = [(b, i, c) for (b, i, r, c) in fn.calls() if (c.get("callee") or "").startswith("sqlite3_bind_")
                 and "SET_VALUE_PROPS" in (c.get("ms") or [])]
        if not binds:
            continue
        n += 1

        def data_conditions(bid):
            """branch blocks the block depends on whose condition contains no call (a pure test of data)"""
            out = []
            for tb in fn.blocks.values():
                if len(tb.succs) != 2:
                    continue
                t, f = loops.control_dependents(fn, tb.id)
                if (bid in t) == (bid in f):
                    continue
                cnd = cfgq.cond_of(fn, tb)
                if cnd is None:
                    continue
                if any(isinstance(x, dict) and x.get("k") == "call" for x in walk(cnd)):
                    continue
                out.append((tb, cnd))
            return out
        cond_binds = []
        for (b, i, c) in binds:
            for (tb, cnd) in data_conditions(b.id):
                # only conditions inside the expansion count (the caller may well store values conditionally)
                if "SET_VALUE_PROPS" in (cnd.get("ms") or []) or any("SET_VALUE_PROPS" in (x.get("ms") or []) for x in walk(cnd) if isinstance(x, dict)):
                    cond_binds.append((c, cnd))
        clears = [(b, i, c) for (b, i, r, c) in fn.calls_to("sqlite3_clear_bindings")]
        # the statement the expansion binds to: the initialiser of the macro's local `s`
        stmts = set()
        for (b2, i2, r2, d) in fn.eval_sites("decl"):
            if "SET_VALUE_PROPS" in (d.get("ms") or []):
                for v in d.get("vars", []):
                    if "sqlite3_stmt" in v.get("t", "") and v.get("init") is not None:
                        stmts.add(re.split(r"->|\.", show(v["init"]).strip("()"))[-1])
        uncond_clear = False
        bind_loops = [lp for lp in loops.natural_loops(fn) if binds[0][0].id in lp.body]
        bind_loop = min(bind_loops, key=lambda l: len(l.body)) if bind_loops else None
        for (b, i, c) in clears:
            if bind_loop is not None and b.id not in bind_loop.body:
                continue            # cleared once per call, not between the executions of the loop
            if stmts and c.get("args") and re.split(r"->|\.", show(c["args"][0]).strip("()"))[-1] not in stmts:
                continue
            lps = [lp for lp in loops.natural_loops(fn) if b.id in lp.body]
            inner = min(lps, key=lambda l: len(l.body)) if lps else None
            dc = [(tb, cnd) for (tb, cnd) in data_conditions(b.id) if inner is None or (tb.id in inner.body and tb.id != inner.header)]
            if not dc:
                uncond_clear = True
        key = "%s:SET_VALUE_PROPS" % fn.name
        if not cond_binds:
            rule.ok(key, "%d binds, each evaluated whenever its kind's arm is" % len(binds))
        elif uncond_clear:
            rule.ok(key, "a bind depends on the data, but the bindings are cleared unconditionally between executions")
        else:
            c, cnd = cond_binds[0]
            rule.violation(fn.file, fn.name, c.get("l"), "stale-binding:%s" % fn.name,
                           "`%s` is evaluated only under `%s`, and the statement's bindings are not cleared unconditionally between "
                           "executions: a value for which the condition fails is stored with what the previous value bound to that "
                           "parameter" % (show(c)[:60], show(cnd)[:50]))
    return n
