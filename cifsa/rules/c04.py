"""C04 — the managed CIF behaves as the documented data model: schema invariants, statements type-check,
key parameters bound on every path, trigger-message coupling, reserved-category guards."""
import re

from ..facts import Broken, strip, const, walk, walk_eval
from ..interp import Interp, path, av_const, NONZERO
from .. import cfgq, sqlmodel
from ..sqlmodel import SqlModel, Schema, parse_params, bind_column_sites, literal_text, statement_target

KEY_COLUMNS = {"container_id", "name", "name_orig", "loop_num", "row_num", "parent_id", "id"}


def model(prog):
    m = getattr(prog, "_sqlm", None)
    if m is None:
        m = prog._sqlm = SqlModel(prog)
        m.schema = Schema(m)
        m.sites = bind_column_sites(prog)
        m.params = {}
        m.compiled = {}
        for f, e in m.statements.items():
            ps = parse_params(e["sql"])
            n = max([x["n"] for x in ps] or [0])
            m.params[f] = ps
            m.compiled[f] = (n,) + m.schema.compile(e["sql"], n)
    return m


def norm(s):
    return " ".join(s.lower().split())


class BindInterp(Interp):
    """ts = frozenset of (stmt field, parameter index) bound since the statement's bindings were last cleared."""

    def __init__(self, prog, fn, m, ints, stmts):
        super().__init__(prog, fn)
        self.m = m
        self.ints = ints
        self.stmts = stmts
        self.step_obs = []      # (call node, field, frozenset bound)

    def initial_ts(self):
        return frozenset()

    def call(self, st, n, argvals):
        c = n.get("callee") or ""
        args = n.get("args", [])
        if c in sqlmodel.BIND_KIND and len(args) >= 2:
            f = sqlmodel.stmt_of(args[0], self.stmts)
            i = sqlmodel.fold(args[1], self.ints)
            if f and i is not None:
                return [(st.with_ts(st.ts | {(f, i)}), None)]
        elif c == "sqlite3_clear_bindings" and args:
            f = sqlmodel.stmt_of(args[0], self.stmts)
            if f:
                return [(st.with_ts(frozenset(x for x in st.ts if x[0] != f)), None)]
        elif c == "sqlite3_prepare_v2" and len(args) > 3:
            f = sqlmodel._member_name(args[3])
            if f:
                return [(st.with_ts(frozenset(x for x in st.ts if x[0] != f)), None)]
        elif c == "sqlite3_step" and args:
            ck = (self.fn.key, n["id"])
            f = self.m._stepmaps.get(ck)
            if ck not in self.m._stepmaps:
                f = self.m._stepmaps[ck] = self.m.step_field(self.fn, self._root, n)
            self.step_obs.append((n, f, st.ts))
        return [(st, None)]

    def on_root(self, st, block, index, root):
        self._root = root
        return st


def container_scoping_rule(prog, chk, m=None, rid="R5", primary=True):
    if m is None:
        m = model(prog)
    r5 = chk.rule(rid + "-container-scoping", "loop numbers and item names are unique only within a container: in every statement (and "
                  "sub-select) each reference to loop / loop_item / item_value is tied to a container - its container_id is equated "
                  "with a parameter, or joined on container_id to a reference that is", floor=15, primary=primary)
    n_refs = 0
    stmts = dict((f, e["sql"]) for f, e in m.statements.items())
    # statements prepared ad hoc (no dedicated field), e.g. GET_LOOP_VALUES_SQL
    for fn in prog.all_functions():
        for (b, i, r, n) in fn.calls_to("sqlite3_prepare_v2"):
            if len(n.get("args", [])) > 1:
                t = literal_text(n["args"][1])
                if t and t not in stmts.values():
                    stmts["%s@L%s" % (fn.name, n.get("l"))] = t
    for name, sql in sorted(stmts.items()):
        for blk_i, (refs, unanchored) in enumerate(container_scoping(sql)):
            for (tbl, alias) in refs:
                n_refs += 1
                key = "%s#%d:%s%s" % (name, blk_i, tbl, (" " + alias) if alias and alias != tbl else "")
                if (tbl, alias) in unanchored:
                    r5.violation("internal/sql.h", name, 0, "unscoped-table:%s:%s" % (name, tbl),
                                 "in statement %s a reference to `%s`%s is not restricted to a container (no `container_id = ?`, no join on "
                                 "container_id to a restricted reference) in its query block: loop numbers / names of other containers "
                                 "match as well.  SQL: %s" % (name, tbl, (" (alias %s)" % alias) if alias and alias != tbl else "", " ".join(sql.split())[:200]))
                else:
                    r5.ok(key, "tied to a container")
    if n_refs < 15:
        raise Broken("only %d references to container-scoped tables found in the embedded statements" % n_refs)



def run(prog, chk):
    chk.level = "other"
    chk.explanation = ("The schema and statement layer the data model rests on, decided statically: SQLite's own parser is run "
                       "on the embedded DDL and on every embedded statement (in an empty in-memory database; this compiles the "
                       "embedded program text, it does not run cif_api) to read off keys, uniqueness, cascades and triggers and "
                       "to type-check each statement; C-side bind/column indexes are joined against the statements; key "
                       "parameters are bound on every path to each step (dataflow).  Results of API histories are not decided.")
    chk.trusted.append("SQLite (python3 sqlite3 module) as parser/compiler of the embedded SQL text")
    m = model(prog)
    sc = m.schema

    r1 = chk.rule("R1-schema-invariants", "keys, uniqueness, ON DELETE CASCADE chain, scalar-loop triggers, loop numbering "
                  "trigger, per-handle private database with foreign keys enabled", floor=12)
    g = prog.globals["schema_statements"]

    def need(cond, key, msg_ok, msg_bad):
        if cond:
            r1.ok(key, msg_ok)
        else:
            r1.violation(g["file"], "schema_statements", g["line"], key, msg_bad)
    T = sc.tables
    for t in ("container", "data_block", "save_frame", "loop", "loop_item", "item_value"):
        if t not in T:
            raise Broken("table %s missing from the schema" % t)
    need(tuple(sorted(T["loop_item"]["pk"])) == ("container_id", "name"), "loop_item:pk",
         "PRIMARY KEY (container_id, name): a name belongs to one loop per container",
         "loop_item primary key is %s, expected (container_id, name)" % (T["loop_item"]["pk"],))
    need(tuple(sorted(T["item_value"]["pk"])) == ("container_id", "name", "row_num"), "item_value:pk",
         "PRIMARY KEY (container_id, name, row_num)", "item_value primary key is %s" % (T["item_value"]["pk"],))
    need(("name",) in sc.unique_sets("data_block"), "data_block:unique-name", "UNIQUE (name)", "data_block.name is not unique")
    need(("name", "parent_id") in sc.unique_sets("save_frame"), "save_frame:unique", "UNIQUE (parent_id, name)",
         "save_frame lacks UNIQUE (parent_id, name)")
    need(tuple(sorted(T["loop"]["pk"])) == ("container_id", "loop_num"), "loop:pk", "PRIMARY KEY (container_id, loop_num)",
         "loop primary key is %s" % (T["loop"]["pk"],))
    for col in ("name", "name_orig"):
        for t in ("data_block", "save_frame", "loop_item"):
            need(T[t]["columns"].get(col, {}).get("notnull"), "%s.%s:not-null" % (t, col), "NOT NULL", "%s.%s may be NULL" % (t, col))
    want_fk = {("data_block", "container"), ("save_frame", "container"), ("loop", "container"), ("loop_item", "loop"),
               ("item_value", "loop_item")}
    got_fk = set()
    for t, info in T.items():
        for fk in info["fks"]:
            got_fk.add((t, fk["table"]))
            need((fk["on_delete"] or "").upper() == "CASCADE", "fk:%s(%s)->%s:cascade" % (t, ",".join(fk["from"]), fk["table"]),
                 "ON DELETE CASCADE", "foreign key %s(%s) -> %s is ON DELETE %s" % (t, ",".join(fk["from"]), fk["table"], fk["on_delete"]))
    need(want_fk <= got_fk, "fk:chain", "item_value -> loop_item -> loop -> container; data_block, save_frame -> container",
         "missing foreign keys: %s" % sorted(want_fk - got_fk))
    sf = [fk for fk in T["save_frame"]["fks"] if fk["from"] == ["parent_id"]]
    need(bool(sf) and sf[0]["table"] == "container", "fk:save_frame.parent_id", "frames die with their parent",
         "save_frame.parent_id does not reference container")
    trg = {k: norm(v["sql"]) for k, v in sc.triggers.items()}

    def has_trigger(pred):
        return any(pred(s) for s in trg.values())
    need(has_trigger(lambda s: "before insert on loop" in s and "new.category = ''" in s and "raise(abort, 'duplicate scalar loop')" in s
                     and "category = ''" in s.split("from loop")[-1]),
         "trigger:dup-scalar-insert", "second category '' per container refused on INSERT", "no BEFORE INSERT trigger refusing a second scalar loop")
    need(has_trigger(lambda s: "before update of category on loop" in s and "new.category = ''" in s and "raise(abort, 'duplicate scalar loop')" in s),
         "trigger:dup-scalar-update", "second category '' refused on UPDATE OF category", "no BEFORE UPDATE OF category trigger refusing a second scalar loop")
    need(has_trigger(lambda s: "before update on loop" in s and "new.category = ''" in s and re.search(r"new\.last_row_num, 0\) > 1", s)
                     and "raise(abort, 'attempted to create multiple values for a scalar')" in s),
         "trigger:scalar-single-packet-update", "last_row_num beyond 1 refused for the scalar loop", "no trigger limiting the scalar loop to one packet (update)")
    need(has_trigger(lambda s: "before insert on loop" in s and "new.category = ''" in s and re.search(r"new\.last_row_num, 0\) != 0", s)
                     and "raise(abort" in s),
         "trigger:scalar-single-packet-insert", "scalar loop created with last_row_num 0", "no trigger on insert of a scalar loop with packets")
    need("unnumbered_loop" in sc.views and has_trigger(lambda s: "instead of insert on unnumbered_loop" in s
                                                        and "select next_loop_num from container where id = new.container_id" in s
                                                        and "set next_loop_num = next_loop_num + 1" in s),
         "trigger:loop-numbering", "loop_num allocated from container.next_loop_num", "unnumbered_loop INSTEAD OF trigger does not allocate loop numbers")
    cc = prog.fn("cif_create")
    opens = cc.calls_to("sqlite3_open_v2")
    if not opens:
        raise Broken("cif_create: sqlite3_open_v2 not found")
    for (b, i, r, n) in opens:
        fname = literal_text(n["args"][0])
        flags = const(n["args"][2]) or 0
        PRIVATE = 0x00040000
        need(fname in ("", ":memory:") and (flags & PRIVATE), "cif_create:private-db",
             "opens %r with SQLITE_OPEN_PRIVATECACHE: nothing shared between CIFs" % fname,
             "cif_create opens %r with flags 0x%x: not a private per-handle database" % (fname, flags))
    fk_sql = [literal_text(n["args"][1]) for (b, i, r, n) in cc.calls_to("sqlite3_exec") if literal_text(n["args"][1])]
    need(any("foreign_keys" in norm(s) and "'on'" in norm(s) for s in fk_sql), "cif_create:foreign-keys-on",
         "pragma foreign_keys = 'on' executed", "cif_create does not enable foreign keys")
    env = prog.macro_int("CIF_ENVIRONMENT_ERROR")
    need(any(const(n.get("rhs")) == env for (b, i, r, n) in cc.eval_sites("asg")), "cif_create:fk-support-verified",
         "CIF_ENVIRONMENT_ERROR when foreign keys are unavailable", "cif_create does not verify that foreign keys were enabled")

    r2 = chk.rule("R2-statements-type-check", "every embedded statement compiles against the schema; every bind/column index "
                  "lies within the statement's parameter/column count; key parameters are bound on every path to each step",
                  floor=40)
    if m.conflicts:
        for (f, fnname, line) in m.conflicts:
            r2.violation("", fnname, line, "stmt-sql-conflict:" + f, "field %s is prepared with two different SQL texts" % f)
    if len(m.statements) < 15:
        raise Broken("only %d prepared statements recognised" % len(m.statements))
    for f, e in sorted(m.statements.items()):
        n, ok, msg, cols = m.compiled[f]
        site = e["sites"][0]
        if ok:
            r2.ok("compile:" + f, "%d parameters%s" % (n, (", columns " + ",".join(cols)) if cols else ""))
        else:
            r2.violation(site["file"], site["fn"], site["line"], "compile:" + f, "SQLite rejects %s: %s" % (e.get("macro") or f, msg))
    unresolved = 0
    for s in m.sites:
        fn, n = s["fn"], s["node"]
        if s["stmt"] is None or s["index"] is None:
            unresolved += 1
            r2.unproved("%s:L%s:%s" % (fn.key, n.get("l"), s["api"]), "statement or index not resolved statically")
            continue
        if s["stmt"] not in m.statements:
            r2.unproved("%s:%s" % (fn.key, s["stmt"]), "statement field has no recognised prepare site")
            continue
        np, ok, msg, cols = m.compiled[s["stmt"]]
        key = "%s:%s(%s,%d)" % (fn.name, s["api"], s["stmt"], s["index"])
        if s["is_bind"]:
            if 1 <= s["index"] <= np:
                r2.ok(key, "parameter %d of %d" % (s["index"], np))
            else:
                r2.violation(fn.file, fn.name, n.get("l"), "bind-index:" + key, "binds parameter %d of a statement with %d parameters" % (s["index"], np))
        else:
            nc = len(cols) if cols is not None else None
            if nc is None:
                r2.violation(fn.file, fn.name, n.get("l"), "column-of-non-select:" + key, "reads a result column of a statement that returns none")
            elif 0 <= s["index"] < nc:
                r2.ok(key, "column %d (%s) of %d" % (s["index"], cols[s["index"]], nc))
            else:
                r2.violation(fn.file, fn.name, n.get("l"), "column-index:" + key, "reads column %d of a statement with %d columns" % (s["index"], nc))
    if unresolved > 6:
        chk.fail_broken("%d bind/column sites could not be resolved statically" % unresolved)
    # must-bind
    n_steps = 0
    for fn in prog.all_functions():
        if not fn.calls_to("sqlite3_step"):
            continue
        ints, stmts = sqlmodel.local_consts(fn)
        it = BindInterp(prog, fn, m, ints, stmts).run()
        seen = {}
        for (n, f, bound) in it.step_obs:
            if f is None or f not in m.statements:
                continue
            req = set()
            tgt = statement_target(m.statements[f]["sql"])
            for p in m.params[f]:
                col = p["column"]
                if col in KEY_COLUMNS and p["context"] in ("where", "insert"):
                    req.add(p["n"])
            have = {i for (ff, i) in bound if ff == f}
            missing = req - have
            k = (n["id"], f)
            seen.setdefault(k, set())
            seen[k] |= missing
            seen[k].add(("n", n.get("l")))
        for (nid, f), missing in seen.items():
            line = [x[1] for x in missing if isinstance(x, tuple)][0]
            miss = sorted(x for x in missing if not isinstance(x, tuple))
            n_steps += 1
            key = "%s:step(%s)" % (fn.name, f)
            if it.overflow:
                r2.unproved(key, "not analysed to a fixpoint")
            elif miss:
                # a statement bound by its caller (cif_loop_get_packets hands a bound statement to the iterator) is exempt
                if f == "stmt" and fn.name == "cif_pktitr_next_packet":
                    r2.ok(key, "steps the iterator's statement, bound in cif_loop_get_packets")
                    continue
                cols = sorted({p["column"] for p in m.params[f] if p["n"] in miss})
                r2.violation(fn.file, fn.name, line, "unbound-key-parameter:" + key,
                             "statement %s is stepped on a path where key parameter(s) %s (%s) were not bound since its bindings were cleared"
                             % (f, miss, ",".join(cols)))
            else:
                r2.ok(key, "all key parameters bound on every path")
    if n_steps < 15:
        chk.fail_broken("only %d statement step sites analysed" % n_steps)

    r3 = chk.rule("R3-trigger-message-coupling", "the C strings compared with sqlite3_errmsg() are exactly the texts raised by the triggers", floor=2)
    raised = set(re.findall(r"raise\s*\(\s*abort\s*,\s*'([^']*)'", " ".join(sc.ddl), re.I))
    n_cmp = 0
    compared = set()
    for fn in prog.all_functions():
        for (b, i, r, n) in fn.calls_to("strcmp"):
            if not any(x.get("k") == "call" and x.get("callee") == "sqlite3_errmsg" for a in n["args"] for x in walk(a)):
                continue
            n_cmp += 1
            other = [a for a in n["args"] if not any(x.get("k") == "call" and x.get("callee") == "sqlite3_errmsg" for x in walk(a))]
            txt = None
            if other:
                o = strip(other[0])
                txt = literal_text(o)
                if txt is None and o.get("k") == "ref":
                    gg = prog.globals.get(o["name"])
                    txt = literal_text(gg.get("init")) if gg else None
            if txt is not None:
                txt = txt.rstrip("\x00")
            compared.add(txt)
            if txt in raised:
                r3.ok("%s:%r" % (fn.name, txt), "raised by a trigger")
            else:
                r3.violation(fn.file, fn.name, n.get("l"), "errmsg:%s" % fn.name,
                             "compares sqlite3_errmsg() with %r, but the triggers raise %s" % (txt, sorted(raised)))
    if n_cmp < 2:
        raise Broken("only %d sqlite3_errmsg comparisons found" % n_cmp)
    for msg in sorted(raised - compared):
        r3.violation(g["file"], "schema_statements", g["line"], "raised-not-recognised:%s" % msg,
                     "a trigger raises %r but no C code recognises that message (compared: %s)" % (msg, sorted(compared)))

    r4 = chk.rule("R4-reserved-category-guards", "cif_loop_set_category refuses the scalar category in both directions before any SQL",
                  primary=False, floor=1)
    sc_fn = prog.fn("cif_loop_set_category")
    rl = prog.macro_int("CIF_RESERVED_LOOP")
    steps = [(b.id, i) for (b, i, r, n) in sc_fn.calls_to("sqlite3_step")]
    rets = [(b.id, i, n) for (b, i, r, n) in sc_fn.returns() if n.get("e") and const(n["e"]) == rl]
    sets = [(b.id, i, n) for (b, i, r, n) in sc_fn.eval_sites("asg") if const(n.get("rhs")) == rl]
    n_ref = len(rets) + len(sets)
    if n_ref >= 2 and steps:
        # none of the refusals is reachable after the step
        after = set()
        for (bid, idx) in steps:
            after |= cfgq.reach(sc_fn, [bid])
        late = [x for x in rets + sets if x[0] in after and (x[0], x[1]) not in steps and not any(x[0] == sb and x[1] < si for sb, si in steps)]
        if late and all(x[0] != sb for x in late for sb, _ in steps):
            r4.violation(sc_fn.file, sc_fn.name, late[0][2].get("l"), "reserved-after-sql", "CIF_RESERVED_LOOP is produced after the UPDATE ran")
        else:
            r4.ok("cif_loop_set_category", "%d refusals with CIF_RESERVED_LOOP, all before the UPDATE" % n_ref)
    else:
        r4.violation(sc_fn.file, sc_fn.name, sc_fn.line, "reserved-guards", "expected two CIF_RESERVED_LOOP refusals, found %d" % n_ref)
    r4b = chk.rule("R4b-reserved-category-guards-on-every-path", "in cif_loop_set_category every statement that stores the new category "
                   "(the UPDATE's step, the handle's cached copy) is reached only after the new category was found NULL or non-empty "
                   "AND the loop's present category was examined: \"\" can be neither given to nor taken from a loop", primary=False, floor=2)
    from .. import catguard
    catguard.rule(prog, r4b)
    chk.extra_cov["statements"] = len(m.statements)
    chk.extra_cov["bind_column_sites"] = len(m.sites)
    chk.extra_cov["raised_messages"] = sorted(raised)

    container_scoping_rule(prog, chk, m)

    r7 = chk.rule("R7-lookup-accepts-what-lenient-creation-stores", "block and frame creation has a lenient mode (used by the parser "
                  "when an error about the code was accepted) that stores a code without validating it; the look-up by code of the "
                  "same table must then normalise its key without validating, or the container just created cannot be found "
                  "again (duplicate-code recovery, a second parse into the same CIF)", primary=False, floor=2)
    if lenient_lookup_rule(prog, m, r7) < 2:
        raise Broken("fewer than 2 look-up functions for leniently created containers found")

    r8 = chk.rule("R8-name-length-limit", "cif_is_valid_name counts characters (code points) and accepts exactly up to the line "
                  "length for data names, line length - 5 for block / frame codes: every name the data model allows can be "
                  "created and found again (shared with C09 R8)", primary=False, floor=2)
    from . import c09
    if c09.name_length_limit(prog, r8) < 2:
        raise Broken("cif_is_valid_name: no length comparison of the name found")

    r9 = chk.rule("R9-transactions-balanced", "every API function returns with the transaction depth it was entered with (a nested "
                  "call that issues a full ROLLBACK or leaves a savepoint open changes what the enclosing operation stores): the "
                  "balance rule of C05, reported here for the functions that modify the CIF", primary=False, floor=10)
    from . import c05
    c05.check_balance(prog, chk, r9)

    r6 = chk.rule("R6-null-category-is-not-scalar", "every decision whether a loop category is the scalar category \"\" answers no for "
                  "a NULL category (no category): by the boolean structure of the test, or because the test is only reached "
                  "where the category was found non-NULL", primary=False, floor=3)
    scalar_category_rule(prog, r6)


def lenient_lookup_rule(prog, m, rule):
    tables_of = {}
    for f, e in m.statements.items():
        sql = " ".join(e["sql"].lower().split())
        tables_of[f] = (sql, {t for t in ("data_block", "save_frame") if re.search(r"\b%s\b" % t, sql)})

    def stmts_of(fn):
        return {x.get("name") for (b, i, r, x) in fn.eval_sites("member") if x.get("name") in tables_of}
    creators = {}
    for fn in prog.all_functions():
        if not any(p["name"] == "lenient" for p in fn.params):
            continue
        calls = {c.get("callee") for (b, i, r, c) in fn.calls()}
        if "cif_normalize" in calls and "cif_normalize_name" in calls:
            for st in stmts_of(fn):
                sql, tabs = tables_of[st]
                if sql.startswith("insert"):
                    for t in tabs:
                        creators[t] = fn.name
    if not creators:
        raise Broken("no creation function with a lenient mode found")
    n = 0
    for fn in prog.all_functions():
        if fn.name in creators.values():
            continue
        norm = [(b, i, r, c) for (b, i, r, c) in fn.calls() if c.get("callee") in ("cif_normalize", "cif_normalize_name")]
        if not norm:
            continue
        for st in sorted(stmts_of(fn)):
            sql, tabs = tables_of[st]
            if not sql.startswith("select") or "name = ?" not in sql.replace("name=?", "name = ?"):
                continue
            for t in sorted(tabs & set(creators)):
                for (b, i, r, c) in norm:
                    n += 1
                    key = "%s:%s:%s" % (fn.name, t, c["callee"])
                    if c["callee"] == "cif_normalize":
                        rule.ok(key, "normalises without validating; %s can store unvalidated codes" % creators[t])
                    else:
                        rule.violation(fn.file, fn.name, c.get("l"), "lookup-validates:%s" % fn.name,
                                       "%s looks a container up in `%s` by a key it first validates (cif_normalize_name), while %s in "
                                       "lenient mode stores codes without validation: a container the parser created after an accepted "
                                       "error about its code is reported absent / refused, and the recovery that re-opens it fails"
                                       % (fn.name, t, creators[t]))
    return n


def scalar_category_rule(prog, rule):
    """Every decision `this category is the scalar category ""` answers no for a NULL category (cif.h: the scalar loop is
    identified by an empty, not NULL, category).  Category expressions are resolved through the program: the out-parameter of
    cif_loop_get_category, the `category` field of a loop, the category parameter of the two public functions taking one."""
    CAT_PARAM = {"cif_loop_set_category": 1, "cif_container_get_category_loop": 1, "cif_container_create_loop": 1}
    n_sites = 0
    for fn in prog.all_functions():
        cats = set()
        for (b, i, r, n) in fn.calls_to("cif_loop_get_category"):
            if len(n.get("args", [])) > 1:
                a = strip(n["args"][1])
                if isinstance(a, dict) and a.get("k") == "un" and a.get("op") == "&" and path(a.get("e")):
                    cats.add(path(a.get("e")))
        if fn.name in CAT_PARAM and len(fn.params) > CAT_PARAM[fn.name]:
            cats.add(fn.params[CAT_PARAM[fn.name]]["name"])

        def is_cat(e):
            pth = path(strip(e))
            return pth is not None and (pth in cats or pth.endswith("->category") or pth.endswith(".category"))

        neg_sites = set()

        def empty_test(e):
            """e is true exactly when a category string is empty (or, for ids in neg_sites, non-empty) -> the category
            expression, else None"""
            e = strip(e)
            if not isinstance(e, dict):
                return None
            def first_char(x):
                x = strip(x)
                if isinstance(x, dict) and x.get("k") == "un" and x.get("op") == "*" and is_cat(x.get("e")):
                    return x.get("e")
                if isinstance(x, dict) and x.get("k") == "index" and const(x.get("idx")) == 0 and is_cat(x.get("base")):
                    return x.get("base")
                if isinstance(x, dict) and x.get("k") == "call" and x.get("callee") in ("u_strcmp", "u_strlen", "u_strcmp"):
                    args = x.get("args", [])
                    if x["callee"] == "u_strlen" and args and is_cat(args[0]):
                        return args[0]
                    if x["callee"] == "u_strcmp" and len(args) == 2:
                        for a, o in ((args[0], args[1]), (args[1], args[0])):
                            if is_cat(a) and (path(strip(o)) or "").lstrip("&(").startswith("cif_uchar_nul") or \
                                    (is_cat(a) and "CIF_SCALARS" in (strip(o).get("ms") or [])):
                                return a
                return None
            if e.get("k") == "un" and e.get("op") == "!":
                return first_char(e.get("e"))
            if e.get("k") == "bin" and e.get("op") in ("==", "!="):
                for x, o in ((e.get("lhs"), e.get("rhs")), (e.get("rhs"), e.get("lhs"))):
                    if const(o) == 0 and first_char(x) is not None:
                        if e["op"] == "!=":
                            neg_sites.add(e.get("id"))
                        return first_char(x)
            return None

        def ev(e, cat):
            """three-valued value of a boolean expression when `cat` is NULL"""
            e = strip(e)
            if not isinstance(e, dict):
                return None
            k = e.get("k")
            if path(e) == cat:
                return 0
            if k == "un" and e.get("op") == "!":
                v = ev(e.get("e"), cat)
                return None if v is None else 1 - v
            if k == "bin" and e.get("op") in ("==", "!="):
                for x, o in ((e.get("lhs"), e.get("rhs")), (e.get("rhs"), e.get("lhs"))):
                    if path(strip(x)) == cat and const(o) == 0:
                        return 1 if e["op"] == "==" else 0
                return None
            if k == "bin" and e.get("op") in ("&&", "||"):
                l, r = ev(e.get("lhs"), cat), ev(e.get("rhs"), cat)
                if e["op"] == "&&":
                    return 0 if (l == 0 or r == 0) else (1 if (l == 1 and r == 1) else None)
                return 1 if (l == 1 or r == 1) else (0 if (l == 0 and r == 0) else None)
            return None

        seen = {}
        for b in fn.blocks.values():
            trees = list(b.roots)
            c = cfgq.cond_of(fn, b)
            if c is not None:
                trees.append(c)
            if b.term and isinstance(b.term.get("full"), dict):
                trees.append(b.term["full"])
            for root in trees:
                # parent links inside this tree
                parent = {}
                for n in walk(root):
                    for key in ("lhs", "rhs", "e", "c", "then", "else"):
                        ch = n.get(key)
                        if isinstance(ch, dict):
                            parent[id(ch)] = n
                    if n.get("k") == "decl":
                        for v in n.get("vars", []):
                            if isinstance(v.get("init"), dict):
                                parent[id(v["init"])] = n
                for n in walk(root):
                    ce = empty_test(n)
                    if ce is None:
                        continue
                    cat = path(strip(ce))
                    top = n
                    positive = n.get("id") not in neg_sites
                    while True:
                        pn = parent.get(id(top))
                        if pn is None:
                            break
                        if pn.get("k") == "un" and pn.get("op") == "!":
                            positive = not positive
                            top = pn
                        elif pn.get("k") == "cast" or (pn.get("k") == "bin" and pn.get("op") in ("&&", "||")):
                            top = pn
                        else:
                            break
                    v = ev(top, cat)
                    if v is not None and not positive:
                        v = 1 - v       # `top` is true for non-scalar categories: NULL must make it true
                    key = (n.get("id"), cat)
                    if seen.get(key) in (0, 1) and v is None:
                        continue
                    if v is not None or key not in seen:
                        seen[key] = v
                        seen[(key, "n")] = n
        for key, v in list(seen.items()):
            if len(key) == 2 and key[1] == "n":
                continue
            n = seen[(key, "n")]
            cat = key[1]
            n_sites += 1
            label = "%s:L%s:%s" % (fn.name, n.get("l"), cat)
            if v == 1:
                rule.violation(fn.file, fn.name, n.get("l"), "null-category-is-scalar:%s" % fn.name,
                               "the decision at L%s whether `%s` is the scalar category \"\" answers yes when `%s` is NULL: loops "
                               "without a category are then treated as the scalar loop (single packet, row numbering restarted)"
                               % (n.get("l"), cat, cat))
                continue
            if v == 0:
                rule.ok(label, "false for a NULL category by its own boolean structure")
                continue
            # undetermined by the expression itself: the test must only be evaluated where the category is known non-NULL
            def nonnull(cnd, cat=cat):
                z = cfgq.zero_test(cnd, lambda e: path(strip(e)) == cat)
                return None if z is None else ("false" if z == "true" else "true")
            ge = cfgq.guard_edges(fn, nonnull)
            site_blocks = [bb.id for (bb, i, r, m) in fn.eval_sites() if m.get("id") == n.get("id")]
            if site_blocks and ge and all(cfgq.must_pass_edge(fn, sb, ge) for sb in site_blocks):
                rule.ok(label, "evaluated only after `%s` was found non-NULL" % cat)
            else:
                rule.violation(fn.file, fn.name, n.get("l"), "category-emptiness-unguarded:%s" % fn.name,
                               "`%s` is tested for being the empty (scalar) category at L%s without having been found non-NULL on "
                               "every path: a loop without a category reaches the test" % (cat, n.get("l")))
    if n_sites < 3:
        raise Broken("only %d decisions on the scalar category found (expected write_loop_start, cif_loop_set_category, "
                     "cif_pktitr_remove_packet)" % n_sites)


SCOPED_TABLES = ("loop", "loop_item", "item_value", "unnumbered_loop")
_SQL_KW = {"on", "using", "where", "join", "set", "group", "order", "values", "select", "left", "inner", "natural", "cross", "as", "and", "or", "limit"}


def container_scoping(sql):
    """[(refs, unanchored)] per query block of the statement; refs = [(table, alias)] of container-scoped tables."""
    low = " ".join(sql.lower().split())
    blocks = []

    def extract(text):
        # pull out innermost parenthesised sub-selects first
        while True:
            mm = None
            depth_stack = []
            for idx, ch in enumerate(text):
                if ch == "(":
                    depth_stack.append(idx)
                elif ch == ")" and depth_stack:
                    st = depth_stack.pop()
                    inner = text[st + 1:idx]
                    if inner.strip().startswith("select") and "(" not in inner.replace("count(*)", "").replace("max(", "max[").replace("(container_id", "[container_id"):
                        mm = (st, idx, inner)
                        break
            if mm is None:
                break
            st, idx, inner = mm
            blocks.append(inner)
            text = text[:st] + " __sub%d__ " % len(blocks) + text[idx + 1:]
        blocks.append(text)
    extract(low)
    out = []
    for blk in blocks:
        refs = []
        for mm in re.finditer(r"\b(from|join|update|into)\s+(\w+)(?:\s+(?:as\s+)?(\w+))?", blk):
            tbl, alias = mm.group(2), mm.group(3)
            if alias in _SQL_KW or alias is None or alias.startswith("__sub"):
                alias = tbl
            if tbl in SCOPED_TABLES:
                refs.append((tbl, alias))
        if not refs:
            out.append(([], set()))
            continue
        anchored = set()
        names = {a for (_, a) in refs}
        # insert with an explicit column list naming container_id: the new row's container is a bound value / selected column
        mi = re.search(r"\binto\s+(\w+)\s*\(([^)]*)\)", blk)
        if mi and "container_id" in mi.group(2):
            anchored.add(mi.group(1))
        for mm in re.finditer(r"(?:(\w+)\.)?container_id\s*=\s*\?\d*|\?\d*\s*=\s*(?:(\w+)\.)?container_id", blk):
            a = mm.group(1) or mm.group(2)
            if a:
                anchored.add(a)
            else:
                # unqualified: resolvable only if one table carries the column, or the tables are joined USING (container_id ..)
                if len(names) == 1 or re.search(r"using\s*[\(\[][^\)\]]*container_id", blk):
                    anchored |= names
        links = [(mm.group(1), mm.group(2)) for mm in re.finditer(r"(\w+)\.container_id\s*=\s*(\w+)\.container_id", blk)]
        if re.search(r"using\s*[\(\[][^\)\]]*container_id", blk):
            ns = sorted(names)
            links += [(ns[k], ns[k + 1]) for k in range(len(ns) - 1)]
        changed = True
        while changed:
            changed = False
            for (x, y) in links:
                if x in anchored and y not in anchored:
                    anchored.add(y)
                    changed = True
                if y in anchored and x not in anchored:
                    anchored.add(x)
                    changed = True
        out.append((refs, {(t, a) for (t, a) in refs if a not in anchored}))
    return out
