#!/usr/bin/env python3
"""Run every check against every stored seeded change (seeded/<id>/patch.diff) on scratch copies of /repo/src and record
which (check, rule) reports it in seeded/<id>/meta.json (`detected_by`).  Prints a summary table.
usage: tools/seedsweep.py [ID ...]"""
import concurrent.futures
import json
import os
import re
import shutil
import subprocess
import sys
import tempfile

HERE = os.path.dirname(os.path.dirname(os.path.abspath(__file__)))
ALL = ["C%02d" % i for i in range(1, 21)]


def sweep_one(sid):
    seed = os.path.join(HERE, "seeded", sid)
    try:
        if json.load(open(os.path.join(seed, "meta.json"))).get("retired"):
            return sid, None, "retired: " + json.load(open(os.path.join(seed, "meta.json")))["retired"][:80]
    except (OSError, ValueError):
        pass
    base = tempfile.mkdtemp(prefix="cifsa-sweep-", dir=os.environ.get("TMPDIR", "/tmp"))
    try:
        shutil.copytree("/repo/src", os.path.join(base, "src"),
                        ignore=shutil.ignore_patterns("*.o", "*.lo", "*.la", ".libs", ".deps", "tests", "examples", "tools", "*.log", "*.trs"))
        r = subprocess.run(["patch", "-p1", "-s", "-d", base, "-i", os.path.join(seed, "patch.diff")], capture_output=True, text=True)
        if r.returncode != 0:
            return sid, None, "patch does not apply: " + (r.stdout + r.stderr)[-200:]
        hits = []
        for pid in ALL:
            rr = subprocess.run([os.path.join(HERE, "check"), pid, "--src", os.path.join(base, "src"), "--no-evidence"],
                                capture_output=True, text=True)
            lines = rr.stdout.split("\n")
            for i, l in enumerate(lines):
                if l.startswith("VIOLATION") and i + 1 < len(lines):
                    m = re.search(r"\((\w+)\) rule ([\w\-]+):", lines[i + 1])
                    if m:
                        hits.append({"check": pid, "rule": m.group(2), "function": m.group(1)})
            if rr.returncode == 2:
                hits.append({"check": pid, "rule": "ANALYSIS-BROKEN", "function": ""})
        uniq = []
        for h in hits:
            if h not in uniq:
                uniq.append(h)
        return sid, uniq, ""
    finally:
        shutil.rmtree(base, ignore_errors=True)


def main(argv):
    ids = [a.upper() if "-" not in a else a.split("-")[0].upper() + "-" + a.split("-")[1] for a in argv] or sorted(d for d in os.listdir(os.path.join(HERE, "seeded")) if os.path.isdir(os.path.join(HERE, "seeded", d)))
    with concurrent.futures.ThreadPoolExecutor(max_workers=4) as ex:
        res = list(ex.map(sweep_one, ids))
    n_det = 0
    for sid, hits, err in res:
        mp = os.path.join(HERE, "seeded", sid, "meta.json")
        meta = json.load(open(mp))
        if hits is None:
            print("%s  ERROR %s" % (sid, err))
            continue
        meta["detected_by"] = hits
        json.dump(meta, open(mp, "w"), indent=1)
        if hits:
            n_det += 1
        print("%s  %-9s %s" % (sid, "DETECTED" if hits else "missed", "; ".join(sorted({"%s %s (%s)" % (h["check"], h["rule"], h["function"]) for h in hits}))[:230]))
    print("%d of %d seeded changes detected" % (n_det, len(res)))
    return 0


if __name__ == "__main__":
    sys.exit(main(sys.argv[1:]))
