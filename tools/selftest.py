#!/usr/bin/env python3
"""Mutation self-test: each seeded variant of /repo/src must still parse, and the named rule must report
the seeded function.  Also used by the thorough tier of each check (only that property's mutants).

usage: tools/selftest.py [PID ...] [--keep] [--list]
"""
import glob
import json
import os
import re
import shutil
import subprocess
import sys
import tempfile

HERE = os.path.dirname(os.path.dirname(os.path.abspath(__file__)))
sys.path.insert(0, HERE)
from cifsa import build  # noqa: E402

MUTANT_DIR = os.path.join(HERE, "selftest", "mutants")


def load_mutants(pids=None):
    out = []
    for p in sorted(glob.glob(os.path.join(MUTANT_DIR, "*.json"))):
        for m in json.load(open(p)):
            if pids and m["property"] not in pids:
                continue
            out.append(m)
    return out


def make_copy():
    base = os.environ.get("TMPDIR", "/tmp")
    d = tempfile.mkdtemp(prefix="cifsa-mut-", dir=base)
    src = os.path.join(build.REPO, "src")
    dst = os.path.join(d, "src")
    os.makedirs(dst)
    for f in os.listdir(src):
        p = os.path.join(src, f)
        if os.path.isfile(p) and (f.endswith(".c") or f.endswith(".h")):
            shutil.copy(p, dst)
    shutil.copytree(os.path.join(src, "internal"), os.path.join(dst, "internal"))
    return d, dst


def apply(dst, m):
    """Returns list of (path, original_text) to restore, or raises."""
    saved = []
    if m.get("patch"):
        # a stored unified diff against /repo (paths a/src/...): the seeded changes written by sub-agents
        pf = os.path.join(HERE, m["patch"])
        files = re.findall(r"^\+\+\+ b/src/(\S+)", open(pf).read(), re.M)
        for f in files:
            p = os.path.join(dst, f)
            saved.append((p, open(p, encoding="latin-1").read()))
        r = subprocess.run(["patch", "-p2", "-s", "-d", dst, "-i", pf], capture_output=True, text=True)
        if r.returncode != 0:
            for p, s0 in saved:
                open(p, "w", encoding="latin-1").write(s0)
            for junk in ("orig", "rej"):
                for f in files:
                    try:
                        os.unlink(os.path.join(dst, f + "." + junk))
                    except OSError:
                        pass
            raise KeyError("patch %s does not apply: %s" % (m["patch"], (r.stdout + r.stderr)[-300:]))
        return saved
    for e in m["edits"]:
        p = os.path.join(dst, e["file"])
        s = open(p, encoding="latin-1").read()
        if s.count(e["old"]) < 1:
            for p0, s0 in reversed(saved):
                open(p0, "w", encoding="latin-1").write(s0)
            raise KeyError("anchor text not found in %s: %r" % (e["file"], e["old"][:60]))
        saved.append((p, s))
        occ = e.get("occurrence", 1)
        idx = -1
        for _ in range(occ):
            idx = s.index(e["old"], idx + 1)
        s2 = s[:idx] + e["new"] + s[idx + len(e["old"]):]
        open(p, "w", encoding="latin-1").write(s2)
    return saved


def syntax_ok(dst, files):
    units, flags, _ = build.units_and_flags(srcdir=dst)
    for f in files:
        if not f.endswith(".c"):
            continue
        r = subprocess.run(["clang", "-fsyntax-only"] + [x for x in flags if x != "-w"] + ["-w", os.path.join(dst, f)],
                           capture_output=True, text=True)
        if r.returncode != 0:
            return False, r.stderr[-1500:]
    return True, ""


def run_mutant(dst, m):
    saved = apply(dst, m)
    try:
        files = {e["file"] for e in m.get("edits", [])} | {os.path.basename(p) if os.path.dirname(p) == dst else os.path.relpath(p, dst) for p, _ in saved}
        if any(f.endswith(".h") for f in files):
            files = set(build.units_and_flags(srcdir=dst)[0])
        ok, err = syntax_ok(dst, files)
        if not ok:
            return "does-not-compile", err
        r = subprocess.run([os.path.join(HERE, "check"), m["property"], "--src", dst, "--no-evidence"],
                           capture_output=True, text=True)
        out = r.stdout
        lines = out.split("\n")
        hit = False
        for i, l in enumerate(lines):
            if l.startswith("VIOLATION property=%s" % m["property"]) and i + 1 < len(lines):
                d = lines[i + 1]
                if ("rule %s" % m["expect_rule"]) in d and (m.get("expect_function") is None or "(%s)" % m["expect_function"] in d):
                    if m.get("expect_key") is None or m["expect_key"] in d:
                        hit = True
        if hit:
            return "caught", ""
        return "MISSED", out[-3000:] + r.stderr[-1000:]
    finally:
        # several edits may touch one file: restore in reverse order so that the first saved (original) text wins
        for p, s in reversed(saved):
            open(p, "w", encoding="latin-1").write(s)


def run_parallel(muts, workers=8):
    """Run the variants on `workers` private scratch copies; returns {id: (verdict, detail)} in input order."""
    import concurrent.futures
    import queue
    copies = queue.Queue()
    made = []
    n = max(1, min(workers, len(muts)))
    for _ in range(n):
        d, dst = make_copy()
        made.append(d)
        copies.put(dst)

    def one(m):
        dst = copies.get()
        try:
            try:
                return m["id"], run_mutant(dst, m)
            except KeyError as e:
                return m["id"], ("anchor-missing", str(e))
        finally:
            copies.put(dst)
    try:
        with concurrent.futures.ThreadPoolExecutor(max_workers=n) as ex:
            return dict(ex.map(one, muts))
    finally:
        for d in made:
            shutil.rmtree(d, ignore_errors=True)


def main(argv):
    keep = "--keep" in argv
    pids = [a.upper() for a in argv if not a.startswith("--")]
    muts = load_mutants(pids or None)
    if "--list" in argv:
        for m in muts:
            print(m["property"], m["id"], m["expect_rule"], m.get("expect_function"))
        return 0
    results = run_parallel(muts)
    res = {}
    for m in muts:
        verdict, detail = results[m["id"]]
        res[m["id"]] = verdict
        print("%-8s %-40s %s" % (m["property"], m["id"], verdict))
        if verdict not in ("caught",) and detail:
            print("    " + detail.replace("\n", "\n    ")[-2500:])
    bad = [k for k, v in res.items() if v != "caught"]
    print("selftest: %d mutants, %d caught, %d not" % (len(res), len(res) - len(bad), len(bad)))
    return 1 if bad else 0


if __name__ == "__main__":
    sys.exit(main(sys.argv[1:]))
