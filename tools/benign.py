#!/usr/bin/env python3
"""Behaviour-preserving variants of /repo/src: every check must stay silent (exit 0, no VIOLATION) on each.
usage: tools/benign.py [id-substring ...]"""
import concurrent.futures
import glob
import json
import os
import shutil
import subprocess
import sys

HERE = os.path.dirname(os.path.dirname(os.path.abspath(__file__)))
sys.path.insert(0, HERE)
from tools import selftest as stm  # noqa: E402

ALL = ["C%02d" % i for i in range(1, 21)]


def load(filters):
    out = []
    for p in sorted(glob.glob(os.path.join(HERE, "selftest", "benign", "*.json"))):
        for m in json.load(open(p)):
            if not filters or any(f in m["id"] for f in filters):
                out.append(m)
    return out


def run_for(pid, workers=6):
    """Thorough tier of one check: every behaviour-preserving variant must leave `pid` silent.  Returns {id: verdict}."""
    ms = load([])
    out = {}

    def one(m):
        d, dst = stm.make_copy()
        try:
            try:
                stm.apply(dst, m)
            except KeyError:
                return m["id"], "anchor-missing (source changed; variant not applicable)"
            r = subprocess.run([os.path.join(HERE, "check"), pid, "--src", dst, "--no-evidence"], capture_output=True, text=True)
            if r.returncode != 0 or "VIOLATION" in r.stdout:
                return m["id"], "ALARM rc=%d" % r.returncode
            return m["id"], "silent"
        finally:
            shutil.rmtree(d, ignore_errors=True)
    with concurrent.futures.ThreadPoolExecutor(max_workers=workers) as ex:
        for mid, v in ex.map(one, ms):
            out[mid] = v
    return out


def run_one(m):
    d, dst = stm.make_copy()
    try:
        try:
            stm.apply(dst, m)
        except KeyError as e:
            return m["id"], "anchor-missing", str(e)
        import re as _re
        if m.get("patch"):
            files = set(_re.findall(r"^\+\+\+ b/src/(\S+)", open(os.path.join(HERE, m["patch"])).read(), _re.M))
        else:
            files = {e["file"] for e in m["edits"]}
        if any(f.endswith(".h") for f in files):
            from cifsa import build
            files = set(build.units_and_flags(srcdir=dst)[0])
        ok, err = stm.syntax_ok(dst, files)
        if not ok:
            return m["id"], "does-not-compile", err
        alarms = []
        for pid in ALL:
            r = subprocess.run([os.path.join(HERE, "check"), pid, "--src", dst, "--no-evidence"], capture_output=True, text=True)
            if r.returncode != 0 or "VIOLATION" in r.stdout:
                lines = r.stdout.split("\n")
                det = [lines[i + 1].strip()[:300] for i, l in enumerate(lines) if l.startswith("VIOLATION") and i + 1 < len(lines)]
                det += [l[:300] for l in lines if l.startswith("ANALYSIS-BROKEN")]
                alarms.append("%s rc=%d %s" % (pid, r.returncode, " | ".join(det[:2])))
        return m["id"], ("silent" if not alarms else "ALARM"), "\n".join(alarms)
    finally:
        shutil.rmtree(d, ignore_errors=True)


def main(argv):
    ms = load(argv)
    bad = 0
    with concurrent.futures.ThreadPoolExecutor(max_workers=6) as ex:
        for mid, verdict, detail in ex.map(run_one, ms):
            print("%-44s %s" % (mid, verdict))
            if verdict != "silent":
                bad += 1
                print("    " + detail.replace("\n", "\n    "))
    print("benign: %d variants, %d not silent" % (len(ms), bad))
    return 1 if bad else 0


if __name__ == "__main__":
    sys.exit(main(sys.argv[1:]))
