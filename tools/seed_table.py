#!/usr/bin/env python3
"""Print the DESIGN.md table rows (seed | change | reported by) for one round from seeded/*/meta.json.  usage: tools/seed_table.py 6"""
import json, os, sys
HERE = os.path.dirname(os.path.dirname(os.path.abspath(__file__)))
rnd = sys.argv[1]
for i in range(1, 21):
    sid = "C%02d%s" % (i, "" if rnd == "1" else "-" + rnd)
    mp = os.path.join(HERE, "seeded", sid, "meta.json")
    if not os.path.exists(mp):
        continue
    m = json.load(open(mp))
    det = "; ".join(sorted({"%s %s" % (h["check"], h["rule"]) for h in m.get("detected_by", [])})) or "— (missed)"
    print("| %s | %s | %s |" % (sid, m["change"].replace("|", "\\|"), det))
