#!/usr/bin/env python3
"""Snapshot of the functions defined per unit on the current /repo tree -> cifsa/known_functions.json.
Static functions absent from this list are treated as newly extracted helpers and inlined (cifsa/inline.py)."""
import json, os, sys
HERE = os.path.dirname(os.path.dirname(os.path.abspath(__file__)))
sys.path.insert(0, HERE)
from cifsa import build
raw, info = build.extract()
out = {u: sorted(f["name"] for f in r.get("functions", [])) for u, r in sorted(raw.items())}
json.dump(out, open(os.path.join(HERE, "cifsa", "known_functions.json"), "w"), indent=1)
print({u: len(v) for u, v in out.items()})
