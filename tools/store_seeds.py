#!/usr/bin/env python3
"""Copy confirmed sub-agent seeds from their scratch worktrees into /verif/seeded/<PID>-<round>/ (patch, demo, notes, confirm
outputs, meta.json).  usage: tools/store_seeds.py <round> <descriptions.json>   (descriptions: {PID: [change, needs]})"""
import json, os, re, shutil, subprocess, sys

rnd = sys.argv[1]
changes = json.load(open(sys.argv[2]))
HERE = os.path.dirname(os.path.dirname(os.path.abspath(__file__)))
for pid, (chg, needs) in sorted(changes.items()):
    wt = "/tmp/seed%s-%s" % (rnd, pid)
    src = os.path.join(wt, "seed")
    dst = os.path.join(HERE, "seeded", "%s-%s" % (pid, rnd))
    if not os.path.exists(os.path.join(src, "confirm.json")):
        print(pid, "NOT CONFIRMED (no confirm.json)")
        continue
    conf = json.load(open(os.path.join(src, "confirm.json")))
    ok = conf["build_rc"] == 0 and conf["tests_pass"] == 74 and conf["tests_fail"] == 0 and conf["demo_with_change_rc"] != 0 \
        and conf["demo_without_change_rc"] == 0
    if not ok:
        print(pid, "REJECTED", conf)
        continue
    base = subprocess.run(["git", "-C", wt, "rev-parse", "HEAD"], capture_output=True, text=True).stdout.strip()
    os.makedirs(dst, exist_ok=True)
    for f in os.listdir(src):
        if f in ("demo", "confirm_build.log", "confirm_build0.log", "confirm_check.log", "valgrind.log") or f.endswith(".o"):
            continue
        p = os.path.join(src, f)
        if os.path.isfile(p) and os.path.getsize(p) < 400000:
            shutil.copy(p, dst)
    files = re.findall(r"^\+\+\+ b/(\S+)", open(os.path.join(src, "patch.diff")).read(), re.M)
    old = {}
    if os.path.exists(os.path.join(dst, "meta.json")):
        old = json.load(open(os.path.join(dst, "meta.json")))
    meta = {"property": pid, "round": int(rnd), "base_commit": base, "files_changed": files, "change": chg, "needs_to_manifest": needs,
            "author": "fresh sub-agent given only the property text, a scratch worktree of /repo, one-line descriptions of the earlier "
                      "changes to avoid, and the request to prefer a change involving the interplay of two or more places",
            "confirmed": {"how": "tools/confirm_seed.sh in the scratch worktree (clean rebuild for header patches): patch == git diff -- "
                                 "src; make; make -k check; demo with the change; git apply -R; make; demo without the change",
                          "build_rc": conf["build_rc"], "tests_total": conf["tests_total"], "tests_pass": conf["tests_pass"],
                          "tests_fail": conf["tests_fail"], "demo_with_change_rc": conf["demo_with_change_rc"],
                          "demo_without_change_rc": conf["demo_without_change_rc"]},
            "demo": ("sh seed/run_demo.sh" if os.path.exists(os.path.join(src, "run_demo.sh")) else
                     "cc -w -g -I. -Isrc -Iuthash seed/demo.c -o seed/demo -Lsrc/.libs -lcif -licuuc -licuio -lsqlite3 -lm && "
                     "LD_LIBRARY_PATH=src/.libs ./seed/demo") + " (from the worktree root)",
            "detected_by": old.get("detected_by", [])}
    json.dump(meta, open(os.path.join(dst, "meta.json"), "w"), indent=1)
    r = subprocess.run(["git", "-C", "/repo", "apply", "--check", os.path.join(dst, "patch.diff")], capture_output=True, text=True)
    print(pid, "stored", "applies-to-HEAD" if r.returncode == 0 else "DOES NOT APPLY TO HEAD: " + r.stderr.strip()[:100])
