#!/usr/bin/env python3
"""Run every check against a seeded change without touching /repo.

usage: tools/seedcheck.py <dir with patch.diff> [PID ...]
A scratch copy of /repo/src is made outside /repo and /verif, the patch applied to it, the checks run with
--src on that copy; prints which checks raise a (new) violation and the reporting lines.
"""
import concurrent.futures
import json
import os
import shutil
import subprocess
import sys
import tempfile

HERE = os.path.dirname(os.path.dirname(os.path.abspath(__file__)))
ALL = ["C%02d" % i for i in range(1, 21)]


def main(argv):
    seed = os.path.abspath(argv[0])
    pids = [a.upper() for a in argv[1:]] or ALL
    patch = os.path.join(seed, "patch.diff")
    base = tempfile.mkdtemp(prefix="cifsa-seed-", dir=os.environ.get("TMPDIR", "/tmp"))
    try:
        shutil.copytree("/repo/src", os.path.join(base, "src"),
                        ignore=shutil.ignore_patterns("*.o", "*.lo", "*.la", ".libs", ".deps", "tests", "examples", "tools", "*.log", "*.trs"))
        r = subprocess.run(["patch", "-p1", "-d", base, "-i", patch], capture_output=True, text=True)
        if r.returncode != 0:
            print("PATCH DOES NOT APPLY:\n" + r.stdout + r.stderr)
            return 2
        src = os.path.join(base, "src")

        def one(pid):
            rr = subprocess.run([os.path.join(HERE, "check"), pid, "--src", src, "--no-evidence"], capture_output=True, text=True)
            return pid, rr.returncode, rr.stdout

        hits = {}
        with concurrent.futures.ThreadPoolExecutor(max_workers=8) as ex:
            for pid, rc, out in ex.map(one, pids):
                lines = out.split("\n")
                v = [lines[i + 1].strip() for i, l in enumerate(lines) if l.startswith("VIOLATION") and i + 1 < len(lines)]
                b = [l for l in lines if l.startswith("ANALYSIS-BROKEN")]
                if v or b or rc != 0:
                    hits[pid] = {"rc": rc, "violations": v, "broken": b}
        if not hits:
            print("NOT DETECTED by any of: " + " ".join(pids))
        for pid, h in sorted(hits.items()):
            print("%s rc=%d" % (pid, h["rc"]))
            for l in h["violations"][:6]:
                print("    " + l[:400])
            for l in h["broken"][:3]:
                print("    " + l[:300])
        return 0 if hits else 1
    finally:
        shutil.rmtree(base, ignore_errors=True)


if __name__ == "__main__":
    sys.exit(main(sys.argv[1:]))
