#!/usr/bin/env python3
"""Regenerates /verif/MANIFEST.json from the registry below (one entry per claimed property)."""
import json
import os
import sys

HERE = os.path.dirname(os.path.dirname(os.path.abspath(__file__)))

TB = "clang 14 parser/Sema/CFG builder (fact extraction); the frozen tables in cifsa/rules/*.py and cifsa/tx.py"

CLAIMED = {
    "C01": dict(level="other", ref="5 C01",
                text="Exhaustive agreement of finite tables: the scanner's character-class/metaclass tables (reconstructed from the "
                     "INIT_V2_SCANNER / SET_V1 stores) equal the CIF 2.0 / 1.1 lexical grammar; every production switch accepts all "
                     "five value-starting token kinds and dispatches them alike; reserved-word recognisers agree. These are necessary "
                     "conditions of correct parsing; the scanner's transitions on arbitrary documents are not decided. "
                     "Also: the scanner's end-of-input mark (CIF_EOF) is returned by no scan/parse function other than the refill functions (flow-sensitive may-return analysis), and the closing-delimiter run counter of triple-quoted strings is reset by every other character. "
                     "Also: the two bracket arms of scan_unquoted decide from the same variables. "
                     "Also (round 6): the character-source accounting rule of C08 (every character read is added to the window; a read ending in CR is remembered from the data as read) is reported here too. "
                     "Also shared from C08: no local derived from the scan window is read after a refill without being re-derived. "
                     "Also (round 7) shared from C08: the character source marks itself drained only where the converter consumed all buffered bytes.",
                note=TB + "; the grammar table transcribed in cifsa/rules/c01.py",
                tech="constant-table reconstruction from AST stores + switch/case-label dispatch analysis on CFGs; may-return value analysis (A1) iterated over the call graph; run-counter reset reachability"),
    "C02": dict(level="other", ref="5 C02",
                text="Necessary conditions of write/re-parse agreement decided on the code's shape: magic code spelled identically in "
                     "writer, cif_parse and parser; every emitting function of ciffile.c stores last_column after every emission on "
                     "every success path and every length-limited primitive compares it with the 2048 limit before emitting "
                     "(path-universal dataflow); delimiter choice has a single source. Round-trip equality is not decided. "
                     "Also: with write_char's arguments substituted, the writers' indexes into the analysed text stay within it and their success tests are satisfiable; magic comparisons use the full code for '== 0' and the version-independent prefix for '!= 0'. "
                     "Also (text fields and layout): every logical line of a folded/prefixed text field gets its line terminator, a protected line its empty continuation line; the prefix/refusal decision depends on a leading semicolon and the fold decision on the prefix length; %S precisions are counted in UChar units; no local copy of last_column is used after output moved the column. "
                     "Also: range tests on surrogates cut exactly at the class boundaries; the tracked column advances by what each counted emission wrote. "
                     "Also (round 6): a text field is written only where allow_text holds, in either CIF version. "
                     "Also: the literal characters a format puts on the line of a name fit in what the name validator leaves of the line (or that arm is chosen under a length test that makes room); the analyser's delimiter-evidence rule of C18 is reported here too. "
                     "Also (round 7): the fold decision is true for a first line of exactly the line length (it shares its line with the opening semicolon); the reserved-word recogniser agrees with next_token (shared from C18).",
                note=TB + "; ICU u_fprintf/u_fputc return conventions (count written / character written)",
                tech="table agreement + emission/accounting typestate dataflow + who-may-call on the call graph; inter-procedural linear substitution of call arguments; per-iteration must-pass-through with branch facts; dependence closure incl. control dependence; staleness may-dataflow; units of printf precisions; boundary-table check of relational comparisons; format-string accounting"),
    "C03": dict(level="other", ref="5 C03",
                text="Structural form of the error-callback contract, path-universal over all 50 callback sites of the parser and up the "
                     "call chain: a non-zero callback result (or failing callee result) reaches a return of that very value with no "
                     "further scanning, storing or callback; positive codes originate only from resource/internal conditions; every "
                     "input-defect code a library call may return is routed to the callback or frozen in a cannot-occur table with "
                     "its reason. Termination, memory safety on arbitrary bytes and post-abort consistency are not decided. "
                     "Also (termination/bounds, necessary conditions only): no loop of the parser units is idempotent, and no read-buffer pointer is dereferenced under '<=' against an exclusive end. "
                     "Also: no parser function returns the scanner's private CIF_EOF mark (a defined result code is returned). "
                     "Also: index variables of signed type into fixed-size tables are non-negative by construction or tested. "
                     "Also (round 6): a table entry claiming a code is tolerated by a case label is verified against the switch (landing block equals that of CIF_OK). "
                     "Also shared from sibling checks as necessary conditions: no stale window pointer after a refill (C08 R1), every production's token switch names all value-starting kinds (C01 R2), an unterminated token at end of input keeps its tail (C12 R6). "
                     "Also (round 7): a character source that returns a negative count has stored an error code on that path; ownership typestate over the parser units (recovery arms included).",
                note=TB + "; flow-insensitive may-return-code summaries (over-approximate); the cannot-occur table was triaged by reading "
                     "each call site; 5 genuine defects are recorded as known findings",
                tech="verdict-propagation typestate dataflow + may-return-code summaries over the call graph; natural-loop read/write analysis; may-return value analysis (A1) over the call graph; reaching-definition sign analysis of index variables"),
    "C04": dict(level="other", ref="5 C04",
                text="The schema and statement layer the data model rests on: SQLite's own parser run on the embedded DDL and on all "
                     "embedded statements (compiling program text in an empty in-memory database, not running cif_api) yields keys, "
                     "uniqueness, cascades, triggers; every statement type-checks; every C bind/column index is in range; key "
                     "parameters are bound on every path to each step (dataflow); trigger messages equal the C strings compared with "
                     "sqlite3_errmsg. Results of arbitrary API histories are not decided. "
                     "Every reference to loop / loop_item / item_value in every query block of the embedded statements is tied to a container (R5). "
                     "Also: every decision 'this category is the scalar category' answers no for a NULL category (three-valued evaluation of the controlling expression, or dominance by a non-NULL test). "
                     "Also: the look-up by code of a table whose creation has a lenient (non-validating) mode normalises its key without validating. "
                     "Also (round 6): cif_is_valid_name counts code points and accepts names up to exactly the documented limits (shared with C09). "
                     "Also: the transaction-balance rule of C05 over the modifying API functions. "
                     "Also (round 7): in cif_loop_set_category both refusals of the reserved category hold on every path to a store of the new category.",
                note=TB + "; SQLite (python3 sqlite3 module) as parser of the embedded SQL; a light tokenizer maps ?-parameters to columns",
                tech="static analysis of embedded SQL + bind/column site join + must-bind dataflow; three-valued evaluation of branch conditions"),
    "C05": dict(level="proof", ref="5 C05",
                text="Path-universal transaction typestate over the CFG of every function that reaches a transaction event or a "
                     "modifying statement: depth balanced on every exit, no failure return after a successful commit, no success "
                     "after rolling back modifications, multi-statement modifications only inside a transaction. This decides "
                     "the structural necessary condition of failure-atomicity (all exits x all functions), not database contents. "
                     "The typestate distinguishes COMMIT/ROLLBACK (end every level, enclosing ones included) from RELEASE/ROLLBACK TO and records what sqlite3_get_autocommit said about an enclosing transaction. "
                     "Also: a function whose own level is `savepoint s` never calls one that can set `savepoint s` (ROLLBACK TO keeps the savepoint), and no plain ROLLBACK runs without an own transaction where an enclosing one is not excluded. "
                     "Also (round 6): a savepoint opened outside any transaction is released on every exit (ROLLBACK TO alone leaves the implicit transaction open).",
                note=TB + "; SQLite transaction semantics (rollback restores the begin/savepoint state; single statements are atomic)",
                tech="typestate dataflow (status-sensitive, disjunctive) over clang CFGs + call-graph summaries"),
    "C06": dict(level="other", ref="5 C06",
                text="Structural life-cycle of packet iterators on the CFGs of cif_loop_get_packets, cif_pktitr_* and every internal "
                     "iterator user: transaction contract per exit, stale/misuse guards dominate every modifying statement, "
                     "bookkeeping stores precede success exits, savepoints paired, users close what they open. Necessary conditions "
                     "of the property; once-only delivery of packets depends on SQL row grouping at run time and is not decided. "
                     "Also: no HASH_ITER body writes the iteration's look-ahead variable. "
                     "Also shared: every statement reference to loop / loop_item / item_value is tied to a container (C04 R5); names are validated by the normaliser of their own kind (C09 R6). "
                     "Also (round 7): every decision whether a loop is the scalar loop answers no for a NULL category (shared from C04).",
                note=TB + "; SQLite transaction/savepoint semantics",
                tech="typestate dataflow + dominance / must-pass-through queries on clang CFGs; loop-body write sets for uthash iterations"),
    "C07": dict(level="other", ref="5 C07",
                text="Agreement of the two hand-written codecs: each value field is read (GET_VALUE_PROPS) from the column it is bound to "
                     "(SET_VALUE_PROPS) for every writer x reader statement, resolved through the statements' own column lists; "
                     "serialise/deserialise pairs move the same width sequences and nest the same codecs; table flags agree; "
                     "SQLITE_STATIC binds outlive the step; buffer primitives clamp. Equality of round-tripped values is not decided. "
                     "Also: no storage loop is idempotent (the buffer-growth loop advances); an attribute read back from storage is not overwritten by a later callee's constant store (mod-set summaries). "
                     "Also: serialiser and deserialiser agree on which field each string position holds; the sign of a number (not stored) is recomputed from the text. "
                     "Also: cif_buf_write copies only where the capacity is known to cover position + len (must-fact established by the growth loop's exit test). "
                     "Also (round 6): every uthash insertion files the value under u_strlen(key) * sizeof(UChar) of the very key stored (shared with C09 / C19). "
                     "Also: the text of a character value does not reach sqlite3_bind_text16 unexamined (SQLite's byte-order-mark handling and U+FFFE/U+FFFF replacement alter it: 3 known findings); the storing functions are transaction-balanced (C05's rule). "
                     "Also (round 7): per function using SET_VALUE_PROPS, every bind is evaluated whenever its kind's arm is, or bindings are cleared unconditionally between executions.",
                note=TB + "; SQLite as parser of the embedded SQL; 3 genuine defects (character text altered by SQLite's UTF-16 handling) are recorded as known findings",
                tech="writer/reader table extraction from macro expansions in the AST + agreement checks; loop-carried-state analysis + last-store mod-set summaries over the call graph; positional field correspondence through locals; must-fact dataflow on relational facts"),
    "C08": dict(level="other", ref="5 C08",
                text="Necessary conditions of buffer-boundary independence decided on the scanner's code: may-dataflow over every function "
                     "of parser.c showing that no local derived from the scan window is read after a (transitive) call to "
                     "get_more_chars without being re-derived; every end-of-line branch of the scanners performs the line accounting "
                     "or un-reads the character, and the copies of the accounting agree; get_more_chars re-bases all window pointers "
                     "when it moves data and decrements the character count once per folded CR LF pair. Value-level arithmetic of the "
                     "folding and alignment independence in general are not decided. "
                     "Also: per-character scan state is not reset on the refill path; every character delivered by the character source is accounted in buffer_limit; a CR ending a read is remembered in the scanner. "
                     "Also: the byte-to-character source is marked drained only on paths where the converter status excludes U_BUFFER_OVERFLOW_ERROR. "
                     "Also: after get_more_chars moved kept data, tvalue_start / next_char are re-based with distances measured on the old window. "
                     "Also (round 6): after an initial CR only UCHAR_NL completes the terminator. "
                     "Also (round 7): memcpy / memmove sizes of wide objects are built with sizeof; u_memcpy / u_memmove count UChars.",
                note=TB + "; functions that may refill = transitive callers of get_more_chars within parser.c",
                tech="staleness may-dataflow + must-pass-through / pairing queries on CFGs; loop nesting + upward-exposed-use analysis; guard-edge reachability from the conversion call"),
    "C09": dict(level="other", ref="5 C09",
                text="Who-may-reach rule over the resolved program: every string reaching a key position (a `name` column of an embedded "
                     "statement, or a uthash key) is normaliser output, a field whose stores are all normaliser output, or an "
                     "already-normalised parameter whose call sites are checked recursively; cif_normalize runs NFD -> case fold -> "
                     "NFC chained through its buffers, and the validating variants validate first. What ICU computes and the per-code-"
                     "point accept/reject boundary are not decided. "
                     "Also: data names are (re-)validated by the data-name normaliser and codes by the code normaliser, decided from the tables each function's statements touch. "
                     "Also: range tests on code units cut exactly at the boundaries of the surrogate and non-character classes. "
                     "Also (round 6): the name length limit is counted in code points, inclusive. "
                     "Also shared from C07: serialiser and deserialiser of a table entry agree on the order key / original spelling. "
                     "Also (round 7): for each of U+0001..U+0020 and U+007F one of the character predicates of cif_is_valid_name answers yes (evaluated over their CFGs); an expression holding normaliser output is not handed to a validating name parameter.",
                note=TB + "; SQLite as parser of the embedded SQL; frozen already-normalised parameter table (DESIGN.md A.3)",
                tech="who-may-reach / must-pass-through over call graph and bind sites + call-order check; statement-table domain inference per function; boundary-table check of relational comparisons"),
    "C10": dict(level="other", ref="5 C10",
                text="NARROW CLAIM: only the refusal-atomicity clause ('refuses ... without modifying the value') is decided, as a "
                     "reachability obligation on the CFGs of cif_value_parse_numb and cif_value_init_numb (every store through the "
                     "target value is followed only by `return CIF_OK`), plus the refusal codes. Acceptance of exactly the numeric "
                     "syntax, correct rounding in both directions and formatting quantify over doubles and digit strings; no static "
                     "argument in reach bounds them and they are NOT decided by this check. "
                     "One lexical necessary condition is added: digit runs are consumed whole (a digit loop is left only on a failed digit test), so well-formed numbers are not refused for an unparsed tail. "
                     "A second lexical condition: the no-digits test after the mantissa loop discounts the decimal point the loop also consumes.",
                note=TB + "; everything numeric in C10 is outside the reach of this technique",
                tech="CFG reachability (store-then-only-success-exit); must-fact dataflow over the scan cursor"),
    "C11": dict(level="other", ref="5 C11",
                text="Narrow structural claim: the dialect-selecting magic code agrees in all places where it is emitted or compared "
                     "(incl. the common 7-character prefix), and CIF_WRONG_ENCODING / the BOM CIF_DISALLOWED_CHAR / SET_V1 sit exactly "
                     "under their version guards. The option x leading-bytes decision table needs evaluation on data: not decided. "
                     "The comparison polarity rule: a '!= 0' test ('no magic code of any version') compares only the version-independent prefix. "
                     "Also: every expansion of the per-character validation macro reports U+FEFF as CIF_DISALLOWED_CHAR in both dialects (a BOM is accepted only as the first character). "
                     "Also: the encoding name of a detected Unicode signature is overwritten only where it was found NULL. "
                     "Also (round 6): the named default encoding is used where documented; prefer_cif2 reaches the scanner on every path without a version comment; not_utf8 depends on the converter name alone. "
                     "Also (round 7): the byte source is marked at end of file only on paths that have read from it.",
                note=TB,
                tech="constant-table agreement + guard-edge dominance on the CFG; comparison-polarity check; conditional constant propagation of the validation macro over its CFG for chosen code units; guard-edge reachability from the detection call"),
    "C12": dict(level="other", ref="5 C12",
                text="Agreement of three finite tables (codes that can reach the callback incl. case labels guarding variable codes; the "
                     "parser's documented recovery table read from parser.c; the 26 defect classes of the property) plus, per documented "
                     "row, a CFG check that accepting the error consumes the offending token ('drop/ignore' rows) or leaves it "
                     "('assume the missing ...' rows). Reported positions and exact recovered content are not decided; C03 R1/R2 "
                     "(verdict propagation, routing) are prerequisites checked under C03. "
                     "Also: the over-length test allows for a terminator already counted in the column (must-dataflow), and every hand-written move of next_char has the matching column change. "
                     "Also: the per-character validation macro reports exactly the non-character code units among chosen probes; no BACK_UP is reachable from an end-of-input outcome without a character scanned in between. "
                     "Also: range tests of the scanner cut at class boundaries; a rewind of the scan position to the token start resets the column; copies of the token length are not used after the token was shortened. "
                     "Also (round 6): the case label of a code the recovery rules tolerate (CIF_NULL_LOOP after accepted duplicate names) lands in the arm of CIF_OK (shared with C03 R2b). "
                     "Also: an array filled only for the elements that pass a test is not subscripted by an index run against the count of all elements (the partial-packet recovery decides per column); between the CIF_PARTIAL_PACKET report and the first read of the column variable it is not advanced. "
                     "Also (round 7): the line counter advances only under a test of the end-of-line class.",
                note=TB + "; the recovery table in parser.c's documentation comment is the oracle for actions",
                tech="table agreement + must/may token-consumption queries on CFGs; must-fact dataflow for column/terminator accounting; conditional constant propagation over a macro expansion; fact-consistent reachability"),
    "C13": dict(level="other", ref="5 C13",
                text="In CIF 1.1 mode every CIF-supplied string reaching the output stream has passed cif_validate_cif11_characters "
                     "with CIF_OK on every path (who-may-emit closure over text-forwarding writers + per-variable must-validate "
                     "dataflow with the mode as status variable); lists/tables/triple quotes/delimiter-containing text fields are "
                     "refused; the validator's table is the CIF 1.1 character set and is indexed within bounds. "
                     "Also: the analyser statistic behind the text-field refusal (contains_text_delim) is accumulated monotonically. "
                     "Also the text-field body rules shared with C02 (line terminators, protected lines, leading semicolon, prefix length in the fold decision). "
                     "Also: the tracked column advances by what each counted emission wrote (delimiters included). "
                     "Also (round 6): a refusal by the CIF 1.1 validator inside a loop over names is not overwritten by a later name's acceptance; a text field is written only where one is allowed, in either version. "
                     "Also: the name-line budget rule of C02. "
                     "Also (round 7): the first-line budget rule of C02.",
                note=TB + "; write_context_t.version is constant during a write (checked: stored only by cif_write); one named "
                     "exemption: text of unquoted numbers",
                tech="typestate dataflow (validated-set) + forwarder summaries + guard dominance + table agreement; monotone-update check; per-iteration must-pass-through with branch facts"),
    "C14": dict(level="other", ref="5 C14",
                text="Finite-domain abstract interpretation of cif_walk and its five helpers: every handler call and child walk is split "
                     "into six answer classes (CONTINUE, SKIP_CURRENT, SKIP_SIBLINGS, END, positive, other negative), flags record the "
                     "answers, and reachability of callback sites under the flags decides the directive obligations; a run with all "
                     "handlers continuing decides start/children/end order (frames before loops); handle arrays and elements are "
                     "released on every path. That the SQL enumerations yield each element once is not decided. "
                     "Also: a child's SKIP_CURRENT is followed by the same callback sites as its CONTINUE. "
                     "Also: with any subset of handlers absent cif_walk returns no directive. "
                     "Also shared from C06: the packet iterator opened by walk_loop is closed or aborted exactly once on every path. "
                     "Also (round 7): a test of whether a handler is installed controls that handler's call only; after a child's SKIP_SIBLINGS the parent's end callback is still made (4 known findings: the walker omits it at every level).",
                note=TB + "; a child walk is assumed to return any answer class (each helper is checked under that assumption); absent "
                     "handlers are outside the property; 4 genuine deviations (end callback of the parent omitted after a child's SKIP_SIBLINGS) are recorded as known findings",
                tech="finite-domain abstract interpretation (exhaustive) + must-pass-through release checks; answer-indexed reachability sets"),
    "C15": dict(level="other", ref="5 C15",
                text="Context-sensitive abstract interpretation of the parser productions over the skip depth (interval domain; contexts "
                     "= nullness of storage parameters x entry depth, discovered from parse_cif in storing and syntax-only mode): "
                     "every handler / keyword / data-name callback and every storing call is reached only with depth <= 0; the "
                     "reachable callback sites do not depend on the presence of a target CIF; each production honours its depth "
                     "contract; depth stores have the directive-driven form. Document order and callback arguments are not decided. "
                     "Also: no bookkeeping variable that decides an error report is assigned only under one outcome of a skip_depth test (skipping does not alter syntax checking). "
                     "Also: no production returns SKIP_CURRENT / SKIP_SIBLINGS received from a handler (may-return analysis); syntax-error callbacks with a literal code are reached with or without a target CIF. "
                     "Also (round 6): directive scope - entered at depth 0, a production returns at depth 1 exactly when the last depth store on the path answered SKIP_SIBLINGS from a handler of its own element (ghost state: last handler, last store, selecting directive); parse_loop_packets' depth contract is now analysed with the column index followed as first / later. "
                     "Also (round 7): no storing call is reached with a NULL handle in any context of the interpretation.",
                note=TB + "; handlers cannot modify the scanner; the own-element table of the five productions (c15.OWN_HANDLERS) is part of the rule",
                tech="context-sensitive interval abstract interpretation over clang CFGs (assume-guarantee contracts per production); edge-dominance non-interference check; A1 may-return value analysis with handler calls as sources; path-sensitive ghost state (last handler / last depth store / selecting directive) in the same interpretation"),
    "C16": dict(level="other", ref="5 C16",
                text="Four rule groups over all units: ownership typestate (per-function dataflow with aliases, allocator/release/transfer "
                     "summary tables: every object a function acquires is released or handed over exactly once on every path; no double "
                     "release or use after release); bounds idioms (index bound larger than the array, free() of pointer arithmetic); "
                     "process-wide state (path-sensitive setlocale save/restore, no fenv/env/signal calls); unbounded signed decimal "
                     "accumulation and kind-before-fields. Absence of undefined behaviour in general (value ranges of all arithmetic, "
                     "array *elements*, SQLite/ICU internals) is not decided. "
                     "Also: key/key_orig aliasing discipline at every free; allocation extent vs constant-offset index; realloc growth increment >= 1 (interval evaluation); exclusive-end guards; no pointer field freed while the kind that owns it stays set; a stored `capacity` equals the element count of the block allocated for the same object. "
                     "Also: all setlocale calls of the save/switch/restore protocol use one category; every allocation that can be the last before a capacity store agrees with it; no HASH_ITER body writes the look-ahead variable. "
                     "Also (round 6): signed index variables into fixed-size tables have a lower bound (shared with C03 R6). "
                     "Also: the compacted-array rule of C12 (elements past the ones written are uninitialised). "
                     "Also (round 7): no storing call on a NULL handle; no release of a pointer that was never set; a block stored into a live object's field is not freed afterwards; a destination value is cleaned only after the source was read; wide copy sizes in bytes.",
                note=TB + "; frozen allocator table (own.ALLOC_OUT, 44 entries), 4 named exemptions (DESERIALIZE macro family, parse_table's "
                     "dead allocating arm); linked-list / hash / array elements are outside the alias model; the defects once "
                     "recorded as known findings for this property have all been repaired",
                tech="ownership typestate dataflow + idiom lints over the AST + path-sensitive typestate for setlocale; linear-form and interval evaluation of size/index expressions"),
    "C17": dict(level="other", ref="5 C17",
                text="Structural necessary conditions of graceful failure under memory exhaustion over ~100 allocation sites: every "
                     "allocation result is NULL-tested on every path before it is dereferenced or copied into (must-fact dataflow per "
                     "site); a positive callee result that may be CIF_MEMORY_ERROR is never followed by `return CIF_OK` unrecorded; "
                     "ownership typestate restricted to paths through a failed allocation (clean-up ladders); no exit leaves a "
                     "transaction open. SQLite's/ICU's own OOM behaviour and 'the same call succeeds when repeated' are not decided. "
                     "Also: after v->kind = K no failure path frees K's fields and returns with the kind still set. "
                     "Further structural rules: a fresh handle reaches its release function only with every field that function reads assigned (R9); failure handlers reached from a uthash insertion that ran out of memory do not walk the table (R10, six known findings: uthash 1.9.9 cannot be unwound); `*out` is re-assigned after its referent was released (R11); a callee's CIF_MEMORY_ERROR is never re-labelled (R8); no `p = realloc(p, n)` (R7); the DESERIALIZE family releases fields before the shell (R6); `*_clean` helpers leave the counters of a released block at 0 (R13). "
                     "Also shared from C16: every allocation that can be the last before a capacity store agrees with it. "
                     "Also (round 7): no release of an unset pointer on the failure path of the callee that would have set it; a failure indicator comes with its code; not freed after transfer.",
                note=TB + "; may-return-code summaries decide which callees can report memory failure",
                tech="must-fact dataflow per allocation site + dropped-failure typestate + ownership typestate on OOM paths; kind/field release ordering on CFGs"),
    "C18": dict(level="other", ref="5 C18",
                text="Exhaustive agreement of finite tables: the special-character sets of cif_analyze_string, cif_value_set_quoted and "
                     "cif_is_reserved_string equal the scanner's token-ending / token-starting classes; reserved words agree with "
                     "next_token; the analyser's length margins equal the writer's delimiter overheads and its delim_length values are "
                     "the writer's case labels. Read-back of each recommended form is not decided. "
                     "Also: guards on the way to recommending delimiter D test evidence about D only; whole-string statistics are accumulated monotonically; the parser's closing-delimiter counter counts contiguous characters (reset by every other character), as the analyser's u_strstr test assumes. "
                     "Also: the store that marks a character value unquoted is dominated by a non-zero test of the text's first character. "
                     "Also (round 6): the histogram index of cif_analyze_string, evaluated for every UTF-16 code unit, stays inside the array and maps onto a slot the cascade reads only the code unit of that number. "
                     "Also: every sum of the CR and LF histogram slots subtracts the counter of CR LF pairs; the scanner class tables the analyser's sets are compared with equal the lexical grammar (C01 R1).",
                note=TB,
                tech="constant/operand extraction from ASTs + table agreement; edge-dominance evidence check; exhaustive constant evaluation of an index expression over the 65535 UTF-16 code units"),
    "C19": dict(level="other", ref="5 C19",
                text="Structural contracts of value objects: escape analysis with call-graph summaries shows that no storing entry point "
                     "lets a source argument (or a pointer read out of it) be stored into the heap - stored copies share no storage "
                     "with the caller's objects; every (re)initialiser cleans its target before storing into it and cif_value_clean "
                     "always ends in kind = CIF_UNK_KIND; list/table accessors test kind and index (with the right comparison) "
                     "before touching members and return the documented codes; the list grows before a slot beyond its capacity is "
                     "written. Structural equality of clones and map semantics under key variants are not decided. "
                     "Also: realloc growth increment >= 1; replacing or releasing one of an entry's key/key_orig never frees the allocation the other still uses; `*_clean` helpers reset the pointers they free and the counters that bound the freed block. "
                     "Also (round 7): only insertion, removal, tear-down and builders of fresh lists write a list's element slots (a set copies onto the existing element); a destination value is cleaned only after the source was read. "
                     "Also: every uthash insertion follows a look-up of its key or takes its keys from a set (1 known finding: cif_packet_create with names that normalise alike).",
                note=TB + "; 3 documented ownership-transfer exemptions (init_char text, parse_numb text, create_norm names)",
                tech="escape (no-alias) analysis with interprocedural summaries + must-call-before / guard dominance on CFGs; interval evaluation; alias-pair free discipline"),
    "C20": dict(level="proof", ref="5 C20",
                text="Exhaustive comparison of the finite set of result-code macros of cif.h with the positional cif_errlist "
                     "initialiser and cif_nerr, read from the AST; complete for this property. "
                     "Also (round 7): code literals are read with C's radix rules (a leading 0 is octal); a code not defined by a literal is analysis-broken.",
                note="clang's preprocessor/AST; the frozen per-code stem table is the oracle for 'describes that very condition'",
                tech="constant-table extraction from the AST + exhaustive table agreement"),
}

PENDING = "check under construction in this session (DESIGN.md section 5); not claimed until its rule module is committed"
NOT_APPLICABLE = {}


def main():
    props = [json.loads(l)["id"] for l in open(os.path.join(HERE, "properties.jsonl"))]
    sys.path.insert(0, HERE)
    try:
        from tools import registry_extra  # noqa
        CLAIMED.update(registry_extra.CLAIMED)
        NOT_APPLICABLE.update(registry_extra.NOT_APPLICABLE)
    except ImportError:
        pass
    checks = []
    for pid in props:
        c = CLAIMED.get(pid)
        if not c:
            continue
        if not os.path.exists(os.path.join(HERE, "cifsa", "rules", pid.lower() + ".py")):
            raise SystemExit("claimed %s has no rule module" % pid)
        checks.append({
            "property_id": pid,
            "quick_cmd": "./check %s --tier quick" % pid,
            "thorough_cmd": "./check %s --tier thorough" % pid,
            "evidence_file": "evidence/%s.json" % pid,
            "replay_cmd_template": "./check %s --replay {path}" % pid,
            "engine": "cifsa",
            "level_claimed": {"category": c["level"], "text": c["text"], "design_ref": "DESIGN.md section " + c["ref"]},
            "level_note": c["note"],
            "technique": c["tech"],
        })
    m = {
        "version": 1,
        "setup_cmd": "./setup.sh",
        "hooks": {"guard": "COMCIFS_CIF_API_VERIF",
                  "enable": "none needed: the analysis reads the unmodified sources with the build's own flags (no hook commits)",
                  "baseline_off_cmd": "cd /repo && make -k check",
                  "source_commits": [], "add_only": True},
        "engines": [{"name": "cifsa",
                     "path": "cifsa/ (Python rule engine) + extract/cifsa-extract.cc (libTooling fact extractor)",
                     "serves_properties": sorted(CLAIMED),
                     "kind_free_text": "custom static analysis: clang AST/CFG facts -> status-sensitive typestate dataflow, "
                                       "call-graph summaries, constant-table agreement, embedded-SQL analysis via SQLite's parser"}],
        "checks": checks,
        "notes": "Static analysis only; see DESIGN.md. Exit 2 from a check = analysis broken (anchor vanished / instance floor). "
                 "Repairs of genuine defects are 'fix:' commits in /repo listed in known_findings.json.",
        "not_applicable": [{"property_id": p, "reason": NOT_APPLICABLE.get(p, PENDING)} for p in props if p not in CLAIMED],
    }
    with open(os.path.join(HERE, "MANIFEST.json"), "w") as fh:
        json.dump(m, fh, indent=1)
    print("MANIFEST.json: %d checks, %d not applicable" % (len(checks), len(m["not_applicable"])))


if __name__ == "__main__":
    main()
