#!/bin/bash
# Confirm a sub-agent's seeded change in its scratch worktree:
#   the patch is what is applied, the library builds, `make -k check` passes, the demonstration fails with the
#   change and passes without it.  Writes <worktree>/seed/confirm.json.
# usage: tools/confirm_seed.sh /tmp/seed-Cxx
wt="$1"
cd "$wt" || exit 2
out=seed/confirm.json
run_demo() {
    if [ -x seed/run_demo.sh ] || [ -f seed/run_demo.sh ]; then
        timeout 900 sh seed/run_demo.sh > "seed/$1" 2>&1
        return $?
    fi
    cc -w -g -I. -Isrc -Iuthash seed/demo.c -o seed/demo -Lsrc/.libs -lcif -licuuc -licuio -lsqlite3 -lm > "seed/$1" 2>&1 || return 99
    LD_LIBRARY_PATH=src/.libs timeout 600 ./seed/demo >> "seed/$1" 2>&1
    return $?
}
# 1. the applied change is the patch
git diff -- src > /tmp/confirm-$$.diff
if ! cmp -s /tmp/confirm-$$.diff seed/patch.diff; then
    git checkout -- src && git apply seed/patch.diff || { echo '{"error":"patch does not apply"}' > $out; rm -f /tmp/confirm-$$.diff; exit 2; }
fi
rm -f /tmp/confirm-$$.diff
# 2. builds and passes the suite (the Makefile does not track header dependencies: rebuild from scratch for header patches)
hdr=0; grep -q "^+++ b/src/.*\.h" seed/patch.diff && hdr=1
[ $hdr -eq 1 ] && make clean > /dev/null 2>&1
make -j4 > seed/confirm_build.log 2>&1; build_rc=$?
make -k check > seed/confirm_check.log 2>&1
total=$(grep -E "^# TOTAL:" seed/confirm_check.log | awk '{s+=$3} END{print s+0}')
pass=$(grep -E "^# PASS:" seed/confirm_check.log | awk '{s+=$3} END{print s+0}')
fail=$(grep -E "^# (FAIL|ERROR):" seed/confirm_check.log | awk '{s+=$3} END{print s+0}')
# 3. demo with the change
run_demo confirm_demo_with.out; with_rc=$?
# 4. demo without
git apply -R seed/patch.diff
[ $hdr -eq 1 ] && make clean > /dev/null 2>&1
make -j4 > seed/confirm_build0.log 2>&1; build0_rc=$?
run_demo confirm_demo_without.out; without_rc=$?
git apply seed/patch.diff
cat > $out <<EOF
{"worktree": "$wt", "build_rc": $build_rc, "tests_total": $total, "tests_pass": $pass, "tests_fail": $fail,
 "demo_with_change_rc": $with_rc, "build_without_rc": $build0_rc, "demo_without_change_rc": $without_rc}
EOF
cat $out
